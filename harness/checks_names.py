"""Check of C19: Coq theorems (sync, immutability of standard names, the name patterns regenerated from
/repo, identifier allocation) + names/sync histories on the real application + the property's oracle."""
import collections
import json
import os
import random
import re

import sqlalchemy as sa

from harness import checks_seq
from harness import common
from harness import coqrun
from harness import hist
from harness import impl
from harness import ops
from harness import oracles

MODEL = ['Gen/GenConsts.v', 'Model/Base.v', 'Model/Tables.v', 'Model/Txn.v', 'Model/Handlers.v', 'Model/Regex.v',
         'Gen/GenNames.v', 'Model/Names.v', 'Proofs/Defs.v']
DEPS = MODEL + ['Proofs/C19.v']
NAME_RE = re.compile(r'CUSTOM_[A-Z0-9_]+')
SVC = {'x-roles': 'admin,service'}


def names_oracle(raw):
    """scan of the raw resource_classes / traits tables"""
    v = []
    import os_resource_classes as orc
    import os_traits
    by_name = {r['name']: r['id'] for r in raw['resource_classes']}
    for i, n in enumerate(orc.STANDARDS):
        if by_name.get(n) != i:
            v.append('standard class %s has id %r, expected %d' % (n, by_name.get(n), i))
    tnames = [r['name'] for r in raw['traits']]
    for t in os_traits.get_traits():
        if t not in tnames:
            v.append('standard trait %s is missing' % t)
    ids = [r['id'] for r in raw['resource_classes']]
    if len(set(ids)) != len(ids) or len(set(by_name)) != len(raw['resource_classes']):
        v.append('duplicate resource class id or name')
    if len(set(tnames)) != len(tnames):
        v.append('duplicate trait name')
    for r in raw['resource_classes']:
        if r['name'] not in orc.STANDARDS:
            if not NAME_RE.fullmatch(r['name']) or len(r['name']) > 255:
                v.append('custom class name %r is not CUSTOM_ + [A-Z0-9_]+ of at most 255 characters' % r['name'])
            if r['id'] < 10000:
                v.append('custom class %r has id %d < 10000' % (r['name'], r['id']))
    std_traits = set(os_traits.get_traits())
    for n in tnames:
        if n not in std_traits and (not NAME_RE.fullmatch(n) or len(n) > 255):
            v.append('custom trait name %r is not CUSTOM_ + [A-Z0-9_]+ of at most 255 characters' % n)
    return v


BAD_NAMES = ['CUSTOM_BAR\n', 'custom_lower', 'CUSTOM_', 'CUSTOM_a', 'CUSTOM_A B', 'CUSTOM_Ä', 'VCPU', 'CUSTOM_' + 'A' * 249,
             'CUSTOM-DASH', ' CUSTOM_LEAD', 'CUSTOM_TAB\t', 'XCUSTOM_A', 'CUSTOM_A\r\n', 'CUSTOM_OK1', 'CUSTOM_' + 'Z' * 248,
             # names that are JSON escapes when pasted into JSON text (a literal backslash follows CUSTOM_)
             'CUSTOM_\\u0041', 'CUSTOM_\\u005f', 'CUSTOM_\\n', 'CUSTOM_A\\', 'CUSTOM_A","x":"1', 'CUSTOM_\\/B', '%43USTOM_PCT']


def malformed_stream(viols, stats):
    """names outside / at the edge of the alphabet through every creating route"""
    app = impl.App()
    for name in BAD_NAMES:
        valid = bool(NAME_RE.fullmatch(name)) and len(name) <= 255
        for how in ('post-rc', 'put-rc', 'put-trait'):
            before = app.raw_dump()
            if how == 'post-rc':
                r = app.request('POST', '/resource_classes', {'name': name}, version='1.39', headers=SVC)
            elif how == 'put-rc':
                import urllib.parse
                r = app.request('PUT', '/resource_classes/%s' % urllib.parse.quote(name, safe=''), None,
                                version='1.39', headers=SVC)
            else:
                import urllib.parse
                r = app.request('PUT', '/traits/%s' % urllib.parse.quote(name, safe=''), None, version='1.39',
                                headers=SVC)
            stats['evaluations'] += 1
            stats['distinct'].add((how, name, r.status))
            after = app.raw_dump()
            for msg in names_oracle(after):
                viols.append(({'kind': 'name', 'how': how, 'name': name}, msg))
            if r.status >= 500:
                viols.append(({'kind': 'name', 'how': how, 'name': name}, '%s with name %r answered %d' % (how, name, r.status)))
            if not valid and name != 'VCPU' and r.status < 300 and how == 'post-rc':
                viols.append(({'kind': 'name', 'how': how, 'name': name}, 'name %r accepted (%d)' % (name, r.status)))
            if valid and r.status >= 400 and not (how == 'post-rc' and r.status == 409):
                viols.append(({'kind': 'name', 'how': how, 'name': name}, 'well-formed name of %d characters rejected (%d)'
                              % (len(name), r.status)))
    app.close()


def sync_stream(rng, n, viols, stats, cases):
    """repeated start-up synchronisation from empty / partially / fully synchronised tables with custom rows"""
    from placement import deploy
    from placement.db.sqlalchemy import models
    from placement.objects import resource_class as rc_obj
    from placement.objects import trait as trait_obj
    import os_resource_classes as orc
    import os_traits
    for k in range(n):
        app = impl.App(sync=(k % 3 != 0))
        eng = app.engine
        rc_t = models.ResourceClass.__table__
        tr_t = models.Trait.__table__
        impl.TL.observe = False
        try:
            with eng.begin() as conn:
                if k % 3 != 0:
                    # remove a random subset of standard rows, add custom rows
                    for name in rng.sample(list(orc.STANDARDS), rng.randint(0, 6)):
                        conn.execute(rc_t.delete().where(rc_t.c.name == name))
                    for name in rng.sample(list(os_traits.get_traits()), rng.randint(0, 20)):
                        conn.execute(tr_t.delete().where(tr_t.c.name == name))
                for j in range(rng.randint(0, 3)):
                    conn.execute(rc_t.insert().values(id=10000 + j, name='CUSTOM_N%d' % j))
                    conn.execute(tr_t.insert().values(name='CUSTOM_T%d' % j))
                stray = []
                if k % 3 == 1:
                    # out-of-band damage: standard traits whose stored name changed case (another name on a case-sensitive
                    # database: the standard one is missing and must come back; the stray row is not the service's doing)
                    for name in rng.sample(sorted(os_traits.get_traits()), 3):
                        odd = name.capitalize() if rng.random() < 0.5 else name.lower()
                        conn.execute(tr_t.update().where(tr_t.c.name == name).values(name=odd))
                        stray.append(odd)
        finally:
            impl.TL.observe = True
        before = app.raw_dump()
        for rep in range(2):
            trait_obj._TRAITS_SYNCED = False
            rc_obj._RESOURCE_CLASSES_SYNCED = False
            deploy.update_database(app.conf)
            after = app.raw_dump()
            stats['evaluations'] += 1
            stats['distinct'].add(('sync', k, rep, len(before['resource_classes']), len(before['traits'])))
            for msg in names_oracle(after):
                if any(repr(o) in msg for o in stray):
                    continue
                viols.append(({'kind': 'sync', 'round': k, 'repeat': rep}, 'after start-up sync: ' + msg))
            cust_b = sorted((r['id'], r['name']) for r in before['resource_classes'] if r['name'].startswith('CUSTOM_'))
            cust_a = sorted((r['id'], r['name']) for r in after['resource_classes'] if r['name'].startswith('CUSTOM_'))
            if cust_a != cust_b:
                viols.append(({'kind': 'sync', 'round': k}, 'start-up sync changed custom classes'))
            if rep == 1 and after != mid:
                viols.append(({'kind': 'sync', 'round': k}, 'second start-up sync changed the tables'))
            mid = after
            if rep == 0:
                tb = sorted([r['id'], ops.rc_tok(r['name'])] for r in before['resource_classes'])
                ta = sorted([r['id'], ops.rc_tok(r['name'])] for r in after['resource_classes'])
                cases.append((tb, ta))
        app.close()


def sync_deadlock_stream(viols, stats):
    """a start-up synchronisation that COMPLETES after a database deadlock at one of its statements must have produced every
    standard name (a sync that gives up loudly is C17's matter, not reported here)"""
    from placement import deploy
    from placement.objects import resource_class as rc_obj
    from placement.objects import trait as trait_obj
    from oslo_db import exception as db_exc
    for k in range(0, 6):
        app = impl.App(sync=False)
        fired = []

        def on_stmt(i, st, params, k=k, fired=fired):
            if i == k and not fired:
                fired.append(st)
                raise db_exc.DBDeadlock()
        impl.OBS.reset()
        impl.OBS.on_stmt = on_stmt
        trait_obj._TRAITS_SYNCED = False
        rc_obj._RESOURCE_CLASSES_SYNCED = False
        err = None
        try:
            deploy.update_database(app.conf)
        except Exception as exc:      # noqa
            err = exc
        finally:
            impl.OBS.on_stmt = None
        stats['evaluations'] += 1
        stats['distinct'].add(('sync-deadlock', k, err is None))
        if err is None:
            for msg in names_oracle(app.raw_dump())[:3]:
                viols.append(({'kind': 'sync-deadlock', 'statement': k, 'sql': str(fired[0])[:80] if fired else None},
                              'start-up sync completed after a deadlock at statement %d, yet: %s' % (k, msg)))
        app.close()


def sync_failed_then_retried_stream(viols, stats):
    """a start-up synchronisation that FAILS (a database error that is not retried, at one of its statements) and is then run
    again in the same process - the application loaded a second time - must, when the second run completes, have produced
    every standard name: a failed synchronisation may not count as done (seed C19-i)"""
    from placement import deploy
    from placement.objects import resource_class as rc_obj
    from placement.objects import trait as trait_obj
    from oslo_db import exception as db_exc
    for k in range(0, 6):
        app = impl.App(sync=False)
        fired = []

        def on_stmt(i, st, params, k=k, fired=fired):
            if i == k and not fired:
                fired.append(st)
                raise db_exc.DBError('injected: connection lost')
        impl.OBS.reset()
        impl.OBS.on_stmt = on_stmt
        trait_obj._TRAITS_SYNCED = False
        rc_obj._RESOURCE_CLASSES_SYNCED = False
        first = None
        try:
            deploy.update_database(app.conf)
        except Exception as exc:      # noqa
            first = exc
        finally:
            impl.OBS.on_stmt = None
        err = None
        try:                          # the second start-up of the same process: the flags are as the first one left them
            deploy.update_database(app.conf)
        except Exception as exc:      # noqa
            err = exc
        stats['evaluations'] += 1
        stats['distinct'].add(('sync-failed-retried', k, first is None, err is None))
        if err is None:
            for msg in names_oracle(app.raw_dump())[:3]:
                viols.append(({'kind': 'sync-failed-then-retried', 'statement': k, 'sql': str(fired[0])[:80] if fired else None,
                               'first_attempt': repr(first)[:120]},
                              'start-up sync failed at statement %d (%s), a second start-up in the same process completed, '
                              'yet: %s' % (k, type(first).__name__, msg)))
        app.close()


def coq_sync_cases(cases, workdir):
    os.makedirs(workdir, exist_ok=True)
    path = os.path.join(workdir, 'sync_cases.v')
    with open(path, 'w') as f:
        f.write('From PV Require Import Model.Base Model.Names Gen.GenConsts.\n')
        f.write('Definition cases : list (list (list Z) * list (list Z)) := [\n')
        f.write(';\n'.join('(%s, %s)' % (ops.lst(ops.lst(ops.z(x) for x in r) for r in tb),
                                         ops.lst(ops.lst(ops.z(x) for x in r) for r in ta)) for tb, ta in cases))
        f.write('].\n')
        f.write('Definition to_rows (l : list (list Z)) : list (Z * Z) := map (fun r => (nth 0 r 0, nth 1 r 0)) l.\n')
        f.write('Definition ok (c : list (list Z) * list (list Z)) : bool :=\n'
                '  list_eqb (list_eqb Z.eqb) (sort_rows (map (fun x => [fst x; snd x]) (rc_sync n_std_rc (to_rows (fst c))))) (snd c).\n')
        f.write('Eval vm_compute in map (fun c => if ok c then 1 else 0) cases.\n')
    res = coqrun.run_coq(path)
    return [i for i, r in enumerate(res) if r != 1]


def regex_stream(rng, n, workdir):
    """Model/Regex.v + the translated patterns against CPython's re on generated strings"""
    from placement.schemas import common as sc
    pats = [('custom_rc_pattern', sc.CUSTOM_RC_PATTERN), ('custom_trait_pattern', sc.CUSTOM_TRAIT_PATTERN),
            ('rc_pattern', sc.RC_PATTERN), ('uuid_pattern', sc.UUID_PATTERN)]
    alphabet = 'ABCXYZ_09az-\n \tCUSTOM'
    strings = ['CUSTOM_A', 'CUSTOM_A\n', 'CUSTOM_', '', 'VCPU', 'VCPU\n', '\n', 'CUSTOM_A\n\n', 'custom_a', 'CUSTOM_9_Z',
               '0' * 36, '0' * 36 + '\n', '0' * 35, 'f' * 37, 'CUSTOM_A B']
    for _ in range(n):
        base = rng.choice(['CUSTOM_', '', 'CUSTOM', 'VCPU', '0123abcd-'])
        strings.append(base + ''.join(rng.choice(alphabet) for _ in range(rng.randint(0, 8))))
    os.makedirs(workdir, exist_ok=True)
    path = os.path.join(workdir, 'regex_cases.v')
    total = 0
    with open(path, 'w') as f:
        f.write('From Coq Require Import ZArith List Bool.\nFrom PV Require Import Model.Regex Gen.GenNames.\n'
                'Import ListNotations.\nOpen Scope Z_scope.\n')
        lines = []
        for pi, (pname, pat) in enumerate(pats):
            items = []
            for si, s in enumerate(strings):
                exp = bool(re.search(pat, s))
                items.append('(%s, %s)' % (ops.lst(ops.z(ord(c)) for c in s), 'true' if exp else 'false'))
                total += 1
            lines.append('Definition cases%d : list (list Z * bool) := [%s].' % (pi, ';\n'.join(items)))
            lines.append('Definition bad%d := length (filter (fun c => negb (Bool.eqb (pmatch %s (fst c)) (snd c))) cases%d).'
                         % (pi, pname, pi))
        f.write('\n'.join(lines) + '\n')
        f.write('Eval vm_compute in map Z.of_nat [%s].\n' % '; '.join('bad%d' % i for i in range(len(pats))))
    res = coqrun.run_coq(path)
    return total, sum(res)


def run(pid, tier, out):
    t = common.Timer()
    seed = common.seed()
    ok_tr, tlog, blog = common.build()
    ps = common.proof_status('C19', DEPS)
    hyg = common.hygiene()
    rng = random.Random(seed * 31 + 19)
    stats = {'evaluations': 0, 'distinct': set(), 'status': collections.Counter(), 'ops': collections.Counter()}
    viols = []
    # 1. names histories (model vs implementation + oracle on raw tables)
    n_hist, n_ops = (24, 30) if tier == 'quick' else (600, 40)
    prof = dict((k, 1) for k in __import__('harness.gen', fromlist=['x']).DEFAULT_PROFILE)
    prof.update(names=40, inv_set=6, rp_create=6, traits_set=8, inv_delete_all=3)
    cases = []
    for i in range(n_hist):
        r = random.Random(seed * 1000003 + 190000 + i)
        app_dump = []

        def on_step(op, resp, obs, before, after):
            stats['evaluations'] += 1
            stats['status'][obs[0]] += 1
            stats['ops'][op[0]] += 1
            stats['distinct'].add(json.dumps([checks_seq.op_json(op), obs], sort_keys=True))
            for msg in oracles.c08(op, obs, before, after):
                if 'standard' in msg:
                    viols.append(({'kind': 'history', 'ops': None}, msg))
        case = hist.run_history(r, n_ops, on_step, profile=prof)
        cases.append(case)
    disagreements = []
    corr_error = None
    model_ok = all(common.vo_fresh(d) for d in MODEL)
    wd = os.path.join(common.WORK, 'names')
    sync_cases = []
    regex_total = regex_bad = 0
    if model_ok:
        try:
            disagreements = coqrun.check_cases(cases, workdir=wd)
        except Exception as exc:
            corr_error = str(exc)[-600:]
    else:
        corr_error = 'model did not build'
    # 2. malformed / edge names through every creating route
    malformed_stream(viols, stats)
    # 3. start-up synchronisation
    sync_stream(rng, 9 if tier == 'quick' else 60, viols, stats, sync_cases)
    sync_deadlock_stream(viols, stats)
    sync_failed_then_retried_stream(viols, stats)
    sync_bad = []
    if model_ok:
        try:
            sync_bad = coq_sync_cases(sync_cases, wd)
            regex_total, regex_bad = regex_stream(rng, 150 if tier == 'quick' else 2000, wd)
        except Exception as exc:
            corr_error = (corr_error or '') + str(exc)[-600:]
    proof_broken = (not ps['ok']) or bool(hyg) or not ok_tr
    tie_broken = bool(disagreements) or bool(sync_bad) or regex_bad != 0 or corr_error is not None
    seen = set()
    for payload, text in viols:
        if text in seen:
            continue
        seen.add(text)
        if len(seen) > 4:
            break
        payload['broken'] = ps.get('broken') or ('correspondence' if tie_broken else None)
        out.violation(payload, text)
    if not viols:
        if proof_broken:
            what = ps['error'] or ('hygiene: %s' % hyg[:5] if hyg else 'translator failed: %s' % tlog[-500:])
            out.violation({'kind': 'proof-broken', 'theorem_or_file': ps.get('broken') or 'Props/C19.v', 'detail': what,
                           'not_closed': [x for x in ps['theorems'] if not x[1]]},
                          'proof obligation no longer checks: %s' % (ps.get('broken') or what), no_input=True)
        elif tie_broken:
            out.violation({'kind': 'correspondence-broken', 'stream': 'names-and-sync',
                           'history_disagreements': len(disagreements), 'sync_disagreements': len(sync_bad),
                           'regex_disagreements': regex_bad, 'error': corr_error},
                          'model and implementation disagree (histories %d, sync %d, regex %d) and the oracle found no '
                          'failing input' % (len(disagreements), len(sync_bad), regex_bad), no_input=True)
    nthm = len(ps['theorems'])
    obligations = max(1, nthm + ps['lemmas'])
    discharged = obligations if ps['ok'] else sum(1 for x in ps['theorems'] if x[1])
    cov = {'obligations': obligations, 'discharged': discharged,
           'checker_cmd': 'cd /verif/coq && make -k && coqc -Q . PV Props/C19.v',
           'trusted_base': common.TRUSTED_BASE + ['translate/names.py (regex subset parser, fail-closed); Model/Regex.v models '
                                                  'CPython re for that subset (validated on generated strings each run)'],
           'theorems': [{'name': n, 'closed_under_global_context': c, 'assumptions': a} for n, c, a in ps['theorems']],
           'proof_error': ps['error'], 'hygiene_hits': hyg,
           'evaluations': stats['evaluations'] + regex_total, 'distinct_nontrivial': len(stats['distinct']),
           'rule': '%d name-heavy request histories x %d (model vs implementation, full dumps); %d edge/malformed names x 3 '
                   'creating routes; %d start-up synchronisations from empty / partially / fully synchronised tables with custom '
                   'rows, each repeated; %d strings x 4 patterns (Coq regex model vs CPython re)'
                   % (n_hist, n_ops, len(BAD_NAMES), len(sync_cases), regex_total // 4 if regex_total else 0),
           'samples': [{'bad_names': BAD_NAMES[:6]},
                       {'history': [{'op': checks_seq.op_json(op), 'status': obs[0]} for op, obs, d in cases[0][:6]]}],
           'traces_validated_against_impl': (len(cases) - len(disagreements)) + (len(sync_cases) - len(sync_bad)),
           'model_impl_disagreements': len(disagreements) + len(sync_bad) + regex_bad, 'correspondence_error': corr_error,
           'status_histogram': {str(k): v for k, v in sorted(stats['status'].items())}}
    common.write_evidence('C19', tier, 'proof', cov, t.s(), len(out.violations))


def replay(pid, path, out):
    p = json.load(open(path))
    if p.get('kind') == 'name':
        viols = []
        stats = {'evaluations': 0, 'distinct': set()}
        malformed_stream(viols, stats)
        for payload, text in viols:
            if payload.get('name') == p.get('name') and payload.get('how') == p.get('how'):
                out.violation(p, text)
                return
    else:
        run(pid, 'quick', out)
