"""Check of C11: Coq theorems (every read = the reference semantics on the abstraction of the database, in every
reachable state; usage = sum of allocations; per-consumer and per-provider views agree; read-after-write; rejected
requests change no read; only the successful requests matter) + (1) differential histories of WRITES (statuses,
error codes, generations, table dumps: model vs application), (2) after every request of generated histories ALL
read routes for every provider / consumer / project of the pools (and, since the class and trait reads joined the model,
GET /traits with name=in: / associated filters, GET /traits/{name}, GET /resource_classes, GET /resource_classes/{name} for
the names of the pools and unknown ones: reads.name_queries, 48 per state), at the microversions on both sides of every
representation change, compared with Model/Reads.v inside Coq, (3) an implementation-side oracle on the same
answers (usage = sum over consumers, the two allocation views agree, reads unchanged by a rejected request) used to
find a failing input when a proof or the tie breaks."""
import collections
import json
import multiprocessing
import os
import random
import sys
import tempfile

from harness import checks_seq
from harness import common
from harness import coqrun
from harness import gen
from harness import hist
from harness import ops
from harness import oracles
from harness import reads

DEPS = checks_seq.MODEL + ['Model/Conc.v', 'Model/ConcTree.v', 'Model/ConcAll.v', 'Model/Reads.v', 'Spec/ApiSpec.v', 'Proofs/C08.v', 'Proofs/C09.v', 'Proofs/C19.v', 'Proofs/C11n.v', 'Proofs/C11.v']
BUDGET = {'quick': (8, 36), 'thorough': (240, 40)}        # histories, requests per history (each followed by ~300 reads)


def c11_write_oracle(op, obs, before, after):
    return ['request answered %d' % obs[0]] if obs[0] >= 500 else []


oracles.ORACLES['C11'] = c11_write_oracle


def run_one(rng, n_ops, profile, directed=False):
    """reads.run_one plus the status of every write -> (steps, statuses); directed: as hist.run_history"""
    from harness import impl
    app = impl.App()
    steps, statuses, fulls = [], [], []
    qrng = random.Random(rng.random())
    dump = ops.canon_dump(app.raw_dump())
    rcmap = ops.rc_map(dump)
    for k in range(n_ops):
        gen.FORCE = gen.TARGETS[(k // 2) % len(gen.TARGETS)] if directed and k >= 10 and k % 2 == 0 else None
        try:
            op = gen.gen_op(rng, dump, profile)
        finally:
            gen.FORCE = None
        r, obs = hist.observe(app, op)
        dump = ops.canon_dump(app.raw_dump())
        rcmap_before, rcmap = rcmap, ops.rc_map(dump)
        rs = []
        allq = reads.queries(rcmap)
        # every 4th request (and the last) is followed by all entity reads, the others by a sample; the
        # project/user/type usage matrix is always sampled
        full = (len(steps) % 4 == 3) or (len(steps) == n_ops - 1)
        picked = [x for x in allq if not x[0].startswith('(QUsages') and (full or qrng.random() < 0.12)]
        us = [x for x in allq if x[0].startswith('(QUsages')]
        picked += qrng.sample(us, min(len(us), 40 if full else 12))
        for q, v, path in picked:
            resp = app.request('GET', path, version=ops.ver(v), headers={'x-roles': 'admin,service'})
            if resp.status >= 500:
                rs.append((q, v, path, (resp.status, [], [])))
            else:
                rs.append((q, v, path, reads.canon(q, resp, rcmap)))
        steps.append((op, rcmap_before, rs))
        statuses.append(obs[0])
        fulls.append(full)
    app.close()
    return steps, statuses, fulls


PROV_LOCAL = ('inv_set', 'inv_post', 'inv_put', 'inv_delete', 'inv_delete_all', 'traits_set', 'traits_delete', 'aggs_set')


def read_oracle(steps, statuses, fulls):
    """implementation-side invariants of the answers -> list of (step index, text)"""
    bad = []
    prev = None
    for si, ((op, _m, rs), st) in enumerate(zip(steps, statuses)):
        views = {(q, v): c for q, v, _p, c in rs}
        full = fulls[si]
        for (q, v), c in views.items():
            if c[0] >= 500:
                bad.append((si, 'read %s at 1.%d answered %d' % (q, v, c[0])))
        cons_rows = collections.defaultdict(list)          # consumer -> [u, rc, amt]
        for (q, v), c in views.items():
            if q.startswith('(QConsAllocs') and v == 39 and c[0] == 200:
                k = int(q[1:-1].split()[1])
                for u, _g, rc, amt in c[2]:
                    cons_rows[k].append((u, rc, amt))
        for (q, v), c in views.items():
            if full and q.startswith('(QRpUsages') and c[0] == 200:
                u = int(q[1:-1].split()[1])
                for rc, x in c[2]:
                    tot = sum(amt for k in cons_rows for (uu, rr, amt) in cons_rows[k] if uu == u and rr == rc)
                    if tot != x:
                        bad.append((si, 'GET /resource_providers/%d/usages reports %d of class %d, the consumers\' allocations '
                                        'sum to %d' % (u, x, rc, tot)))
            if full and q.startswith('(QRpAllocs') and v == 39 and c[0] == 200:
                u = int(q[1:-1].split()[1])
                mine = sorted((row[0], row[1], row[2]) for row in c[2])
                theirs = sorted((k, rc, amt) for k in cons_rows for (uu, rc, amt) in cons_rows[k] if uu == u)
                if mine != theirs:
                    bad.append((si, 'allocations of provider %d by provider %r differ from those by consumer %r' % (u, mine, theirs)))
        if prev is not None and st < 300 and op[0] in PROV_LOCAL:
            # frame: a successful write addressed to ONE provider changes nothing that is reported about another one
            target = op[1] if op[0] == 'inv_delete' else op[2]
            for key, c in views.items():
                if (key[0].startswith(('(QInvs ', '(QInv ', '(QRpTraits ', '(QRpAggs ')) and key in prev and prev[key] != c
                        and int(key[0][1:-1].split()[1]) != target):
                    bad.append((si, 'successful %s on provider %d changed read %s at 1.%d of another provider: %r -> %r' % (
                        op[0], target, key[0], key[1], prev[key], c)))
                    break
        if prev is not None and st >= 400:
            for key, c in views.items():
                if key in prev and prev[key] != c:
                    bad.append((si, 'request %s answered %d changed read %s at 1.%d: %r -> %r' % (
                        op[0], st, key[0], key[1], prev.get(key), c)))
                    break
        prev = views
    return bad


def _work(args):
    seed, idxs, n_ops, profiles = args
    workdir = tempfile.mkdtemp(prefix='pvreads', dir='/dev/shm' if os.path.isdir('/dev/shm') else None)
    batch, oracle_hits, n_reads = [], [], 0
    for i in idxs:
        rng = random.Random(seed * 1000003 + i)
        steps, statuses, fulls = run_one(rng, n_ops, profiles[i % len(profiles)], directed=(i % 2 == 1))
        batch.append((i, steps))
        n_reads += sum(len(r) for _o, _m, r in steps)
        for si, text in read_oracle(steps, statuses, fulls)[:3]:
            oracle_hits.append({'history': i, 'step': si, 'text': text, 'ops': [checks_seq.op_json(s[0]) for s in steps[:si + 1]]})
    err, bad = None, []
    try:
        res = reads.check_batch([s for _i, s in batch], workdir, '%d_%d' % (seed, idxs[0]))
        for (i, steps), dis in zip(batch, res):
            for (si, ri) in dis[:3]:
                q, v, path, c = steps[si][2][ri]
                bad.append({'history': i, 'step': si, 'query': q, 'version': v, 'path': path, 'impl': c,
                            'model': reads.model_view(steps, si, q, v, workdir),
                            'ops': [checks_seq.op_json(s[0]) for s in steps[:si + 1]]})
    except Exception as exc:      # noqa
        err = '%s: %s' % (type(exc).__name__, str(exc)[-600:])
    cover = reads._cover([s for _i, s in batch])
    try:
        import shutil
        shutil.rmtree(workdir, ignore_errors=True)
    except OSError:
        pass
    return n_reads, bad, oracle_hits, err, cover


def run(pid, tier, out):
    t = common.Timer()
    seed = common.seed()
    ok_tr, tlog, blog = common.build()
    ps = common.proof_status('C11', DEPS)
    hyg = common.hygiene()
    n_hist, n_ops = BUDGET[tier]
    model_ok = all(common.vo_fresh(d) for d in checks_seq.MODEL + ['Model/Reads.v'])
    # (0) reads issued DURING write requests (harness/midreads.py), in a process of its own, collected below
    import subprocess
    env = dict(os.environ, PYTHONPATH='%s:%s' % (os.environ.get('VERIF_REPO', '/repo'), common.ROOT), PYTHONHASHSEED='0')
    mid_proc = subprocess.Popen([sys.executable, '-m', 'harness.midreads', '--json'], stdout=subprocess.PIPE, stderr=subprocess.PIPE,
                                cwd=common.ROOT, env=env, text=True)
    # (1) writes
    wstats = {'evaluations': 0, 'status': collections.Counter(), 'ops': collections.Counter(), 'distinct': set()}
    whits = []
    cases = checks_seq.run_stream('C11', 36 if tier == 'quick' else 300, 30, seed + 11, 'default', wstats, whits)
    wdis, corr_error = [], None
    if model_ok:
        try:
            wdis = coqrun.check_cases(cases, workdir=os.path.join(common.WORK, 'cases_C11'))
        except Exception as exc:      # noqa
            corr_error = str(exc)[-600:]
    else:
        corr_error = 'model did not build'
    # (2) + (3) reads
    profiles = sorted(gen.PROFILES)
    jobs = int(os.environ.get('VERIF_JOBS', '8'))
    per = 2 if tier == 'quick' else 4
    tasks = [(seed, list(range(k, min(k + per, n_hist))), n_ops, profiles) for k in range(0, n_hist, per)]
    n_reads, bad, ohits, cover = 0, [], [], collections.Counter()
    if model_ok:
        pool = multiprocessing.get_context('fork').Pool(min(jobs, len(tasks)))
        try:
            for n, b, oh, err, cov in pool.imap(_work, tasks):
                n_reads += n
                bad.extend(b)
                ohits.extend(oh)
                cover.update(cov)
                if err and not corr_error:
                    corr_error = err
        finally:
            pool.close()
            pool.join()
        try:
            ns, bs = reads.run_scenarios()
            n_reads += ns
            bad.extend({'history': 'scenario %s' % b['history'], 'step': b['step'], 'query': b['query'], 'version': b['version'],
                        'path': b['path'], 'impl': b['impl'], 'model': b['model'],
                        'ops': [checks_seq.op_json(o) for o in b['ops']]} for b in bs)
        except Exception as exc:      # noqa
            corr_error = corr_error or ('scenarios: %s' % str(exc)[-400:])
    # interleaved writes (harness/conc_extra.py, own process): every executed schedule is replayed in Model/ConcAll.v; oracles:
    # one allocation record per (consumer, provider, class) - otherwise the views of a consumer's holdings disagree -, no 5xx,
    # complete effect of accepted writes
    from harness import conc_extra
    cx = conc_extra.call('C11', tier)
    if cx.get('error') or cx.get('model_error'):
        corr_error = (corr_error or '') + ' interleaving stream: %s' % (cx.get('error') or cx.get('model_error'))[-600:]
    mid = {'points': 0, 'reads': 0, 'problems': []}
    try:
        mout, merr = mid_proc.communicate(timeout=3000)
        mid = json.loads(mout)
    except Exception as exc:      # noqa
        mid_proc.kill()
        corr_error = (corr_error or '') + ' reads during requests: %s' % str(exc)[-300:]
    proof_broken = (not ps['ok']) or bool(hyg) or not ok_tr
    tie_broken = bool(bad) or bool(wdis) or corr_error is not None

    found = False
    stale = [b for b in mid.get('read_problems', []) if b.get('stale_generation_only')]
    if stale:
        if any(f.get('kind') == 'known' and f.get('property') == 'C11' and f.get('match', {}).get('kind') == 'read-spans-transactions'
               for f in common.load_known()):
            out.known_finding('GET %s answered while a write to the provider commits between its transactions carries the provider generation '
                              'of before the write with the data of after it (%d points of this run)' % (stale[0]['path'].split('?')[0], len(stale)))
        else:
            found = True
            out.violation({'kind': 'write-during-read', 'path': stale[0]['path'], 'write': stale[0]['write']}, 'stale provider generation in a read')
    for b in [x for x in mid.get('read_problems', []) if not x.get('stale_generation_only')][:3]:
        found = True
        out.violation({'kind': 'write-during-read', 'path': b['path'], 'version': b['version'], 'statement': b['statement'], 'write': b['write'],
                       'mid': b['mid'], 'before': b['before'], 'after': b['after'], 'replay_cmd': 'python -m harness.midreads --reads'},
                      'GET %s at 1.%s, with %s committed between its transactions, reports %s - neither the state before that write nor '
                      'after it' % (b['path'], b['version'], b['write'], str(b['mid'])[:200]))
    for b in mid['problems'][:3]:
        found = True
        out.violation({'kind': 'mid-read', 'corpus': b['corpus'], 'transaction': b['transaction'], 'path': b['path'],
                       'version': b['version'], 'mid': b['mid'], 'before': b['before'], 'after': b['after'],
                       'replay_cmd': 'python -m harness.midreads %s' % b['corpus']},
                      'GET %s at 1.%s answered while request %s was between its transactions (%s) reports %s - neither the state '
                      'before the request (%s) nor after it' % (b['path'], b['version'], b['corpus'], b['transaction'],
                                                               str(b['mid'])[:160], str(b['before'])[:120]))
    seen_cx = set()
    for v in cx['violations']:
        key = (v['payload']['scenario']['name'], v['payload']['check'])
        if key in seen_cx or len(seen_cx) >= 3:
            continue
        seen_cx.add(key)
        found = True
        out.violation(v['payload'], v['text'])
    for h in ohits[:3]:
        found = True
        out.violation({'kind': 'history', 'ops': h['ops'], 'step': h['step'],
                       'broken': ps.get('broken') or ('correspondence' if tie_broken else None)}, h['text'])
    for (i, case, msgs) in whits[:2]:
        found = True
        out.violation({'kind': 'history', 'ops': [checks_seq.op_json(c[0]) for c in case], 'oracle': msgs}, msgs[0])
    if not found:
        if proof_broken:
            what = ps['error'] or ('hygiene: %s' % hyg[:5] if hyg else 'translator failed: %s' % tlog[-500:])
            out.violation({'kind': 'proof-broken', 'theorem_or_file': ps.get('broken') or 'Props/C11.v', 'detail': what,
                           'not_closed': [x for x in ps['theorems'] if not x[1]]},
                          'proof obligation no longer checks: %s' % (ps.get('broken') or what), no_input=True)
        elif bad:
            # the application reports something else than the reference semantics (= model, by C11_reads_refine):
            # the history and the read are the failing input
            for b in bad[:3]:
                out.violation({'kind': 'read', 'ops': b['ops'], 'path': b['path'], 'version': b['version'], 'query': b['query'],
                               'application': b['impl'], 'model': b['model'], 'broken': 'correspondence'},
                              'after %d requests GET %s at 1.%d reports %r, the reference semantics gives %s' % (
                                  len(b['ops']), b['path'], b['version'], b['impl'], str(b['model'])[:200]))
        elif wdis or corr_error:
            d0 = None
            if wdis:
                ci, step = wdis[0]
                d0 = {'ops': [checks_seq.op_json(c[0]) for c in cases[ci][:step + 1]], 'impl_observation': cases[ci][step][1]}
            out.violation({'kind': 'correspondence-broken', 'stream': 'write histories', 'first_disagreement': d0, 'error': corr_error},
                          'model and implementation disagree on writes (%d histories) and the oracles found no failing input' % len(wdis),
                          no_input=True)
    nthm = len(ps['theorems'])
    obligations = max(1, nthm + ps['lemmas'])
    discharged = obligations if ps['ok'] else sum(1 for x in ps['theorems'] if x[1])
    cov = {'obligations': obligations, 'discharged': discharged,
           'checker_cmd': 'cd /verif/coq && make -k && coqc -Q . PV Props/C11.v',
           'trusted_base': common.TRUSTED_BASE + [
               'Model/Reads.v: hand-written model of the read handlers over the modelled tables; JSON serialisation is canonicalised by '
               'harness/reads.py:canon (field names per microversion are compared through the canonical tuple, not proved)',
               'GET /resource_providers (listing) and GET /allocation_candidates are covered by C13 / C03, not here',
               'GET /traits?name=startswith: is not modelled (names are opaque tokens)'],
           'theorems': [{'name': n, 'closed_under_global_context': c, 'assumptions': a} for n, c, a in ps['theorems']],
           'proof_error': ps['error'], 'hygiene_hits': hyg,
           'evaluations': n_reads + wstats['evaluations'] + mid['reads'], 'reads_during_requests': mid['reads'], 'points_inside_requests': mid['points'], 'writes_during_reads_points': mid.get('read_points', 0), 'distinct_nontrivial': sum(v for k, v in cover.items() if k[2]) + len(wstats['distinct']),
           'rule': '%d histories x %d generated requests, each followed by every read route for every provider/consumer/project/class/trait of the '
                   'pools at the microversions around each representation change (a case = one read after one prefix; non-trivial = '
                   'answered 200 with rows) + %d write histories x 30 requests compared with the model' % (n_hist, n_ops, len(cases)),
           'samples': [{'read_kinds': {('%s/%d/%s' % k): v for k, v in sorted(cover.items())[:12]}}],
           'traces_validated_against_impl': (n_hist if not bad and not corr_error else 0) + len(cases) - len(wdis),
           'model_impl_disagreements': len(bad) + len(wdis), 'correspondence_error': corr_error, 'interleaving_stream': dict(cx.get('stats') or {}, violations=len(cx['violations'])),
           'read_coverage': {('%s/%d/%s' % k): v for k, v in sorted(cover.items())},
           'write_status_histogram': {str(k): v for k, v in sorted(wstats['status'].items())},
           'oracle_hits': len(ohits)}
    common.write_evidence('C11', tier, 'proof', cov, t.s(), len(out.violations),
                          assumptions=['SQLite as the database', 'sequential requests (concurrency is C05-C07)'])


def replay(pid, path, out):
    if json.load(open(path)).get('kind') == 'schedule-extra':
        from harness import conc_extra
        for v in conc_extra.call('C11', 'quick', replay_path=path)['violations'][:1]:
            out.violation(v['payload'], v['text'])
        return
    d = json.load(open(path))
    if d.get('kind') == 'write-during-read':
        from harness import midreads
        n, bad = midreads.run_writes_during_reads()
        for b in [x for x in bad if not x.get('stale_generation_only')][:1]:
            out.violation(d, 'GET %s with %s committed between its transactions reports neither the state before nor after' % (b['path'], b['write']))
        return
    if d.get('kind') == 'mid-read':
        from harness import midreads
        n, r, bad = midreads.run(d.get('corpus'))
        for b in bad[:1]:
            out.violation(dict(d, mid=b['mid'], before=b['before'], after=b['after']),
                          'GET %s at 1.%s answered while request %s was between its transactions reports %s - neither the state before '
                          'the request nor after it' % (b['path'], b['version'], b['corpus'], str(b['mid'])[:160]))
        return
    if d.get('kind') in ('history', 'read') and d.get('ops'):
        ops_ = [checks_seq.tuple_op(o) for o in d['ops']]
        steps = reads.run_one(None, 0, op_list=ops_)
        for q, v, p, c in steps[-1][2]:
            if d.get('path') in (None, p) and d.get('version') in (None, v):
                print('GET %s at 1.%d -> %r' % (p, v, c))
    run(pid, 'quick', out)
