"""Checks of the sequential-model properties (C01 C04 C08 C09 C10 C12): Coq theorems over
Model/Handlers.v + differential execution of generated request histories + the property's oracle
evaluated on the implementation."""
import collections
import hashlib
import json
import os
import random

from harness import common
from harness import coqrun
from harness import hist
from harness import ops
from harness import oracles

MODEL = ['Gen/GenConsts.v', 'Model/Base.v', 'Model/Tables.v', 'Model/Txn.v', 'Model/Handlers.v', 'Proofs/Defs.v']
DEPS = {
    'C01': MODEL + ['Proofs/C01.v'],
    'C04': MODEL + ['Proofs/C04.v', 'Model/Conc.v', 'Model/ConcTree.v', 'Model/ConcAll.v'],
    'C08': MODEL + ['Proofs/C08.v', 'Model/Conc.v', 'Model/ConcTree.v', 'Model/ConcAll.v', 'Proofs/C08c.v'],
    'C09': MODEL + ['Proofs/C09.v', 'Model/Conc.v', 'Model/ConcTree.v', 'Proofs/C09c.v'],
    'C10': MODEL + ['Proofs/C10.v', 'Model/Conc.v', 'Proofs/ConcDefs.v', 'Proofs/C05.v', 'Proofs/C06.v', 'Model/ConcTree.v', 'Model/ConcAll.v'],
    'C12': MODEL + ['Proofs/C08.v', 'Proofs/C12.v', 'Proofs/Reach.v', 'Model/Conc.v', 'Model/ConcTree.v', 'Model/ConcAll.v'],
}
PROFILE = {'C01': 'alloc', 'C04': 'default', 'C08': 'integrity', 'C09': 'tree', 'C10': 'default', 'C12': 'consumers'}
BUDGET = {'quick': (36, 30), 'thorough': (1200, 40)}
SEARCH_BUDGET = {'quick': (150, 30), 'thorough': (1500, 40)}


CONC_EXTRA = ('C04', 'C08', 'C09', 'C10', 'C12')


def op_json(op):
    return json.loads(json.dumps(op))


# minimised histories of earlier misses; they run first on every run, compared with the model and judged by the oracle
TREE_CORPUS = [
        # a descendant with a SMALLER id than its parent (tree inverted by un-parenting and re-parenting), then the subtree moved
        [('rp_create', 39, 1, 1, None), ('rp_create', 39, 2, 2, 1), ('rp_create', 39, 3, 3, 2), ('rp_create', 39, 4, 4, 3),
         ('rp_create', 39, 5, 5, None), ('rp_update', 39, 3, 3, None), ('rp_update', 39, 2, 2, 4), ('rp_update', 39, 3, 3, 5),
         ('rp_update', 39, 3, 3, 2), ('rp_update', 39, 4, 4, 1), ('rp_update', 39, 5, 5, 2), ('rp_delete', 2), ('rp_update', 39, 3, 3, None)],
        # five levels, un-parent the middle, hang the upper part under the lowest leaf, move it all under a second root
        [('rp_create', 39, 1, 1, None), ('rp_create', 39, 2, 2, 1), ('rp_create', 39, 3, 3, 2), ('rp_create', 39, 4, 4, 3),
         ('rp_create', 39, 5, 5, 4), ('rp_update', 39, 4, 4, None), ('rp_update', 39, 3, 3, 5), ('rp_update', 39, 4, 4, 1),
         ('rp_update', 39, 4, 4, 3), ('rp_update', 39, 1, 1, 3)],
        # a bushy tree whose siblings were NOT created back to back (1 > {2 > {4, 7}, 3 > 6, 5}), then loops through every
        # level (refused) and moves of inner nodes with descendants (seed C09-f: children grouped by consecutive rows)
        [('rp_create', 39, 1, 1, None), ('rp_create', 39, 2, 2, 1), ('rp_create', 39, 3, 3, 1), ('rp_create', 39, 4, 4, 2),
         ('rp_create', 39, 5, 5, 1), ('rp_create', 39, 6, 6, 3), ('rp_create', 39, 7, 7, 2),
         ('rp_update', 39, 1, 1, 2), ('rp_update', 39, 1, 1, 4), ('rp_update', 39, 1, 1, 6), ('rp_update', 39, 2, 2, 7),
         ('rp_create', 39, 8, 8, None), ('rp_update', 39, 1, 1, 8), ('rp_update', 39, 2, 2, None), ('rp_update', 39, 8, 8, 7),
         ('rp_update', 39, 2, 2, 6), ('rp_update', 39, 3, 3, 4)],
        # the same with first-time parenting of a root at 1.14 (no re-parenting below 1.37)
        [('rp_create', 14, 1, 1, None), ('rp_create', 14, 2, 2, 1), ('rp_create', 14, 3, 3, 1), ('rp_create', 14, 4, 4, 2),
         ('rp_create', 14, 5, 5, 1), ('rp_create', 14, 6, 6, 4), ('rp_update', 14, 1, 1, 4), ('rp_update', 14, 1, 1, 6),
         ('rp_create', 14, 7, 7, None), ('rp_update', 14, 7, 7, 6), ('rp_create', 14, 8, 8, None), ('rp_update', 14, 1, 1, 8)],
        # a tree assembled BOTTOM-UP (every descendant older than its parent: 1 < 2 < 3 < 4 hang as 4 > 3 > 2 > 1), the upper part
        # un-parented, the former root deleted (seed C08-g: the deepest provider kept the deleted root), then moved again
        [('rp_create', 39, 1, 1, None), ('rp_create', 39, 2, 2, None), ('rp_create', 39, 3, 3, None), ('rp_create', 39, 4, 4, None),
         ('rp_update', 39, 3, 3, 4), ('rp_update', 39, 2, 2, 3), ('rp_update', 39, 1, 1, 2), ('rp_update', 39, 3, 3, None),
         ('rp_delete', 4), ('rp_create', 39, 5, 5, None), ('rp_update', 39, 3, 3, 5), ('rp_delete', 5), ('rp_update', 39, 2, 2, None),
         ('rp_delete', 3)],
        # one PUT that renames to a name already taken (409) AND moves a provider with descendants to another tree, to a leaf of
        # another tree, out of its tree (seed C04-g: the descendants were re-rooted before the refusal); then the legal variants
        [('rp_create', 39, 1, 1, None), ('rp_create', 39, 2, 2, 1), ('rp_create', 39, 3, 3, 2), ('rp_create', 39, 4, 4, None),
         ('rp_create', 39, 5, 5, 4), ('rp_update', 39, 2, 4, 4), ('rp_update', 39, 2, 5, 5), ('rp_update', 39, 2, 1, None),
         ('rp_update', 39, 2, 3, 2), ('rp_update', 39, 2, 9, 5), ('rp_update', 39, 2, 4, None), ('rp_update', 39, 2, 2, None)],
        # below 1.37 an already parented provider may not be moved at all: to another branch of its OWN tree, to its root, to
        # its grandparent, to another tree, to the top level (seed C09-i: only moves that change the root were refused); naming
        # the parent it has, or no parent key, stays legal; then the same moves from 1.37
        [('rp_create', 14, 1, 1, None), ('rp_create', 14, 2, 2, 1), ('rp_create', 14, 3, 3, 2), ('rp_create', 14, 4, 4, 1),
         ('rp_create', 14, 5, 5, None), ('rp_create', 14, 6, 6, 3), ('rp_update', 14, 3, 3, 4), ('rp_update', 36, 3, 3, 1),
         ('rp_update', 20, 6, 6, 2), ('rp_update', 36, 6, 6, 4), ('rp_update', 29, 3, 3, 5), ('rp_update', 36, 3, 3, None),
         ('rp_update', 36, 3, 3, 2), ('rp_update', 18, 3, 9, 'absent'), ('rp_update', 36, 3, 3, 3), ('rp_update', 36, 3, 3, 6),
         ('rp_update', 14, 4, 4, 3), ('rp_update', 37, 3, 3, 4), ('rp_update', 39, 6, 6, 1), ('rp_update', 36, 6, 6, 3)],
]
CORPUS = {'C04': TREE_CORPUS, 'C08': TREE_CORPUS, 'C09': TREE_CORPUS, 'C10': TREE_CORPUS, 'C12': []}


def run_corpus(pid, stats, first_hits):
    oracle = oracles.ORACLES[pid]
    cases = []
    for i, op_list in enumerate(CORPUS.get(pid, [])):
        hits = []

        def on_step(op, r, obs, before, after, hits=hits):
            stats['evaluations'] += 1
            stats['status'][obs[0]] += 1
            stats['ops'][op[0]] += 1
            msgs = oracle(op, obs, before, after)
            if msgs:
                hits.append(msgs)
        case = hist.run_ops(op_list, on_step)
        if hits:
            first_hits.append((-1 - i, case, hits[0]))
        cases.append(case)
    return cases


def raw_integrity(raw):
    """referential integrity of the RAW tables, strings compared exactly as a case-sensitive database joins them (the canonical
    dump maps every spelling of a uuid to one token and cannot see a row that refers to another spelling)"""
    v = []
    rp_ids = {r['id'] for r in raw['resource_providers']}
    cons = {c['uuid'] for c in raw['consumers']}
    for a in raw['allocations']:
        if a['consumer_id'] not in cons:
            v.append('allocation row of consumer %r: no consumer record with exactly that uuid' % a['consumer_id'])
        if a['resource_provider_id'] not in rp_ids:
            v.append('allocation row refers to provider id %r, which does not exist' % a['resource_provider_id'])
    for r in raw['resource_providers']:
        if r['root_provider_id'] not in rp_ids or (r['parent_provider_id'] is not None and r['parent_provider_id'] not in rp_ids):
            v.append('provider %r: root / parent id refers to no provider' % r['uuid'])
    for t, col in (('inventories', 'resource_provider_id'), ('resource_provider_traits', 'resource_provider_id'),
                   ('resource_provider_aggregates', 'resource_provider_id')):
        for row in raw[t]:
            if row[col] not in rp_ids:
                v.append('%s row refers to provider id %r, which does not exist' % (t, row[col]))
    agg_ids = {a['id'] for a in raw['placement_aggregates']}
    for row in raw['resource_provider_aggregates']:
        if row['aggregate_id'] not in agg_ids:
            v.append('aggregate association refers to aggregate id %r, which does not exist' % row['aggregate_id'])
    pids = {p['id'] for p in raw['projects']}
    uids = {u['id'] for u in raw['users']}
    tids = {t['id'] for t in raw.get('consumer_types', [])}
    for c in raw['consumers']:
        if c['project_id'] not in pids or c['user_id'] not in uids:
            v.append('consumer %r refers to a project / user row that does not exist' % c['uuid'])
        if c.get('consumer_type_id') is not None and c['consumer_type_id'] not in tids:
            v.append('consumer %r refers to a consumer type that does not exist' % c['uuid'])
    return v


def spelling_stream(stats):
    """identifiers spelled in upper case (legal for every uuid in a body) through every route that takes uuids in a body or a
    path; after each request the raw tables must be referentially intact (on a case-sensitive database two spellings are two
    identifiers: that is the service's stated behaviour, not checked here)"""
    from harness import impl, inject
    from harness.checks_conc import inv, cons
    setup = [('rp_create', 39, 1, 1, None), ('inv_set', 39, 1, 0, [inv(0, 8), inv(2, 100)]),
             ('rp_create', 39, 2, 2, 1), ('inv_set', 39, 2, 0, [inv(0, 8)]), ('aggs_set', 39, 1, 1, [1]),
             ('alloc_put', 39, cons(2, None, [(2, [(0, 1)])]))]
    app = inject.fresh(setup)
    H = {'x-roles': 'admin,service'}
    U = ops.uuid_of
    up = lambda x: x.upper()       # noqa: E731
    rp1, rp2 = U(1), U(2)
    c3, c4, c5 = U(3, ops.K_CONS), U(4, ops.K_CONS), U(5, ops.K_CONS)
    a2 = U(2, ops.K_AGG)
    body = lambda rp, amt, gen: {'allocations': {rp: {'resources': {'VCPU': amt}}}, 'project_id': 'proj1', 'user_id': 'user1',   # noqa: E731
                                 'consumer_generation': gen, 'consumer_type': 'TYPE1'}
    hits = []
    reqs = [
        ('POST', '/allocations', {up(c3): body(rp1, 1, None)}),
        ('POST', '/allocations', {up(c3): body(rp1, 2, 1)}),
        ('POST', '/allocations', {c3: body(rp1, 1, None)}),
        ('PUT', '/allocations/%s' % up(c4), body(rp2, 1, None)),
        ('PUT', '/allocations/%s' % up(c4), body(rp2, 2, 1)),
        ('POST', '/allocations', {up(c5): body(rp1, 1, None), up(c4): body(rp1, 1, 2)}),
        ('POST', '/reshaper', {'inventories': {rp1: {'resource_provider_generation': None, 'inventories': {'VCPU': {'total': 16}, 'DISK_GB': {'total': 100}}}},
                               'allocations': {up(c5): dict(body(rp1, 2, 1))}}),
        ('PUT', '/resource_providers/%s/aggregates' % rp1, {'resource_provider_generation': None, 'aggregates': [up(a2), a2]}),
        ('POST', '/resource_providers', {'name': 'spelled', 'uuid': up(U(7)), 'parent_provider_uuid': rp1}),
        ('POST', '/resource_providers', {'name': 'spelled2', 'uuid': U(7)}),
        ('PUT', '/resource_providers/%s' % up(U(7)), {'name': 'renamed', 'parent_provider_uuid': rp1}),
        ('DELETE', '/allocations/%s' % up(c3), None),
        ('DELETE', '/allocations/%s' % c3, None),
        ('DELETE', '/resource_providers/%s' % up(U(7)), None),
    ]
    for method, path, b in reqs:
        if b is not None and 'inventories' in b and method == 'POST':
            g = app.request('GET', '/resource_providers/%s' % rp1, version='1.39', headers=H).json['generation']
            for k in b['inventories']:
                b['inventories'][k]['resource_provider_generation'] = g
        if b is not None and b.get('resource_provider_generation', 0) is None:
            b['resource_provider_generation'] = app.request('GET', '/resource_providers/%s' % rp1, version='1.39', headers=H).json['generation']
        r = app.request(method, path, b, version='1.39', headers=H)
        stats['evaluations'] += 1
        stats['status'][r.status] += 1
        stats['ops']['spelling'] += 1
        if r.status >= 500:
            hits.append(({'method': method, 'path': path, 'body': b}, 'answered %d' % r.status))
        for msg in raw_integrity(app.raw_dump())[:2]:
            hits.append(({'method': method, 'path': path, 'body': b, 'status': r.status}, msg))
        if hits:
            break
    app.close()
    return hits


def run_stream(pid, n_hist, n_ops, base_seed, profile, stats, first_hits, stop_after=3):
    """Run histories on the implementation, evaluating the property's oracle on every step."""
    oracle = oracles.ORACLES[pid]
    cases = []
    for i in range(n_hist):
        rng = random.Random(base_seed * 1000003 + i)
        hits = []

        def on_step(op, r, obs, before, after, hits=hits):
            stats['evaluations'] += 1
            stats['status'][obs[0]] += 1
            stats['ops'][op[0]] += 1
            if before != after or obs[0] >= 400:
                h = hashlib.sha1(json.dumps([op_json(op), obs], sort_keys=True).encode()).hexdigest()
                stats['distinct'].add(h)
            msgs = oracle(op, obs, before, after)
            if msgs:
                hits.append((len(hits), msgs))
        case = hist.run_history(rng, n_ops, on_step, profile=profile, directed=(i % 3 == 2))
        if hits:
            first_hits.append((i, case, hits[0][1]))
        cases.append(case)
        if len(first_hits) >= stop_after:
            break
    return cases


def failing_prefix(pid, op_list):
    """Re-run ops on a fresh implementation; return (index, messages) of the first oracle failure or None."""
    oracle = oracles.ORACLES[pid]
    found = []
    idx = [0]

    def on_step(op, r, obs, before, after):
        if not found:
            msgs = oracle(op, obs, before, after)
            if msgs:
                found.append((idx[0], msgs))
        idx[0] += 1
    hist.run_ops(op_list, on_step)
    return found[0] if found else None


def shrink(pid, op_list):
    """Delta-debug a failing op list to a (locally) minimal one that still fails the oracle."""
    res = failing_prefix(pid, op_list)
    if res is None:
        return op_list, None
    op_list = op_list[:res[0] + 1]
    msgs = res[1]
    i = 0
    while i < len(op_list) - 1:
        cand = op_list[:i] + op_list[i + 1:]
        r = failing_prefix(pid, cand)
        if r is not None and r[0] == len(cand) - 1:
            op_list, msgs = cand, r[1]
        else:
            i += 1
    return op_list, msgs


def float_stream(n, rng):
    """Bit-exact validation of Model/Base.v's double product against CPython on n random pairs."""
    pairs = []
    specials = [0.1, 0.7, 1 / 3, 16.0, 1e-320, 3.4e38, 1.0000000000000002, 0.9999999999999999, 2.5, -0.5, -1.5, 0.0]
    for k in range(n):
        nn = rng.choice([rng.randint(-2 ** 31, 2 ** 31), rng.randint(-50, 200), rng.randint(0, 2 ** 31 - 1)])
        r = rng.choice(specials) if rng.random() < 0.3 else rng.choice(
            [rng.random() * 20, rng.uniform(-3, 3), rng.random() * 1e-5, rng.random() * 1e30, rng.random()])
        pairs.append((nn, r))
    import math
    path = os.path.join(common.WORK, 'float_cases.v')
    os.makedirs(common.WORK, exist_ok=True)
    with open(path, 'w') as f:
        f.write('From PV Require Import Model.Base.\n')
        f.write('Definition cases : list (Z * Z * Z * Z * Z) := [\n')
        items = []
        for nn, r in pairs:
            m, e = ops.ratio_me(r)
            x = nn * r
            fl = math.floor(x)
            tr = int(x)
            items.append('(%s, %s, %s, %s, %s)' % (ops.z(nn), ops.z(m), ops.z(e), ops.z(fl), ops.z(tr)))
        f.write(';\n'.join(items))
        f.write('].\n')
        f.write("Definition bad := filter (fun c => let '(n, m, e, fl, tr) := c in "
                "negb ((fprod_floor n m e =? fl) && (fprod_trunc n m e =? tr))) cases.\n")
        f.write('Eval vm_compute in (length bad, hd (0,0,0,0,0) bad).\n')
    import subprocess
    p = subprocess.run(['timeout', '600', 'coqc', '-Q', common.COQ, 'PV', path], capture_output=True, text=True,
                       cwd=common.WORK)
    if p.returncode != 0:
        return None, p.stderr[-800:]
    import re
    m = re.search(r'=\s*\((\d+)%nat,\s*(.*?)\)\s*:', p.stdout, re.S)
    if not m:
        m = re.search(r'=\s*\((\d+),\s*(.*?)\)\s*:', p.stdout, re.S)
    nbad = int(m.group(1)) if m else -1
    return nbad, (m.group(2) if m else p.stdout[-400:])


def run(pid, tier, out):
    t = common.Timer()
    seed = common.seed()
    ok_tr, tlog, blog = common.build()
    ps = common.proof_status(pid, DEPS[pid])
    hyg = common.hygiene()
    stats = {'evaluations': 0, 'status': collections.Counter(), 'ops': collections.Counter(), 'distinct': set()}
    hits = []
    n_hist, n_ops = BUDGET[tier]
    cases = run_corpus(pid, stats, hits) + run_stream(pid, n_hist, n_ops, seed, PROFILE[pid], stats, hits)
    disagreements = []
    model_ok = all(common.vo_fresh(d) for d in MODEL)
    corr_error = None
    if model_ok:
        try:
            disagreements = coqrun.check_cases(cases, workdir=os.path.join(common.WORK, 'cases_%s' % pid))
        except Exception as exc:      # the model does not evaluate: the tie is broken
            corr_error = str(exc)[-800:]
    else:
        corr_error = 'model did not build'
    float_bad = None
    if pid == 'C01' and model_ok:
        float_bad, float_info = float_stream(2000 if tier == 'quick' else 40000, random.Random(seed + 17))
        if float_bad is None or float_bad != 0:
            corr_error = (corr_error or '') + ' float product model disagrees with CPython: %r %r' % (float_bad, float_info)

    proof_broken = (not ps['ok']) or bool(hyg) or not ok_tr
    tie_broken = bool(disagreements) or corr_error is not None

    # search for a failing input when a proof or the tie broke and the first stream found none
    if (proof_broken or tie_broken) and not hits:
        sh, so = SEARCH_BUDGET[tier]
        run_stream(pid, sh, so, seed + 7919, PROFILE[pid], stats, hits)

    # interleavings: two requests on the same entity under enumerated schedules (harness/conc_extra.py, oracle only)
    cx = {'violations': [], 'stats': {}}
    if pid in CONC_EXTRA:
        from harness import conc_extra
        cx = conc_extra.call(pid, tier)
        if cx.get('error'):
            corr_error = (corr_error or '') + ' interleaving stream: %s' % cx['error'][-600:]
            tie_broken = True
        if cx.get('model_error'):
            corr_error = (corr_error or '') + ' interleaving stream: %s' % cx['model_error'][-600:]
            tie_broken = True
    if (cx.get('stats') or {}).get('known_cached_class_schedules'):
        for f in common.load_known():
            if f.get('kind') == 'known' and f.get('property') == pid and f.get('match', {}).get('pattern') == 'reshape-cached-class-vs-class-delete':
                out.known_finding('%s [%d schedules]' % (f['what'][:400], cx['stats']['known_cached_class_schedules']))
    seen_cx = set()
    for v in cx['violations']:
        key = (v['payload']['scenario']['name'], v['payload']['check'])
        if key in seen_cx or len(seen_cx) >= 3:
            continue
        seen_cx.add(key)
        v['payload']['broken'] = ps.get('broken') or ('correspondence' if tie_broken else None)
        out.violation(v['payload'], v['text'])
    if pid == 'C08':
        try:
            for payload, msg in spelling_stream(stats)[:2]:
                out.violation({'kind': 'spelling', 'request': payload, 'broken': ps.get('broken')},
                              '%s %s (identifiers in upper case): %s' % (payload['method'], payload['path'], msg))
                hits.append((-99, [], [msg]))
        except Exception as exc:      # noqa
            corr_error = (corr_error or '') + ' spelling stream: %s' % str(exc)[-300:]
    reported = 0
    for (i, case, msgs) in [h for h in hits if h[0] != -99][:3]:
        op_list = [c[0] for c in case]
        small, smsgs = shrink(pid, op_list)
        out.violation({'kind': 'history', 'ops': [op_json(o) for o in small], 'seed': seed, 'history_index': i,
                       'oracle': smsgs or msgs,
                       'broken': ps.get('broken') or ('correspondence' if tie_broken else None)},
                      '%s' % ((smsgs or msgs)[0]))
        reported += 1
    if not hits and not cx['violations']:
        if proof_broken:
            what = ps['error'] or ('hygiene: %s' % hyg[:5] if hyg else 'translator failed: %s' % tlog[-500:])
            out.violation({'kind': 'proof-broken', 'theorem_or_file': ps.get('broken') or 'Props/%s.v' % pid,
                           'detail': what, 'not_closed': [x for x in ps['theorems'] if not x[1]]},
                          'proof obligation no longer checks: %s' % (ps.get('broken') or what), no_input=True)
        elif tie_broken:
            d0 = None
            if disagreements:
                ci, step = disagreements[0]
                d0 = {'ops': [op_json(c[0]) for c in cases[ci][:step + 1]],
                      'impl_observation': cases[ci][step][1], 'impl_dump': cases[ci][step][2]}
            out.violation({'kind': 'correspondence-broken', 'stream': 'histories/%s' % PROFILE[pid],
                           'first_disagreement': d0, 'error': corr_error},
                          'model and implementation disagree (%d histories) and the oracle found no failing input'
                          % len(disagreements), no_input=True)

    nthm = len(ps['theorems'])
    obligations = max(1, nthm + ps['lemmas'])
    discharged = obligations if ps['ok'] else sum(1 for x in ps['theorems'] if x[1])
    samples = []
    for case in cases[:2]:
        samples.append([{'op': op_json(op), 'status': obs[0], 'code': obs[1], 'generation': obs[2]}
                        for op, obs, d in case[:6]])
    cov = {
        'obligations': obligations, 'discharged': discharged,
        'checker_cmd': 'cd /verif/coq && make -k && coqc -Q . PV Props/%s.v  (Print Assumptions under every theorem)' % pid,
        'trusted_base': common.TRUSTED_BASE,
        'theorems': [{'name': n, 'closed_under_global_context': c, 'assumptions': a} for n, c, a in ps['theorems']],
        'proof_error': ps['error'], 'hygiene_hits': hyg,
        'evaluations': stats['evaluations'], 'distinct_nontrivial': len(stats['distinct']),
        'rule': 'seeded state-aware generator (profile %s), %d histories x %d requests on the real WSGI app; a case is '
                '(request, observation); distinct by hash of (request, status, code, generation); non-trivial if the '
                'database dump changed or the request was rejected' % (PROFILE[pid], len(cases), n_ops),
        'samples': samples,
        'traces_validated_against_impl': len(cases) - len(disagreements) if model_ok and corr_error is None else 0,
        'model_impl_disagreements': len(disagreements), 'correspondence_error': corr_error,
        'oracle_hits': len(hits),
        'interleaving_stream': dict(cx.get('stats') or {}, violations=len(cx['violations']),
                                    note='two requests on one entity, gap schedules + DFS enumeration on the real service; '
                                         'every executed schedule is also replayed in the Coq model (C09: Model/ConcTree.v, the '
                                         'others: Model/ConcAll.v; model_compared_schedules / model_disagreements)') if pid in CONC_EXTRA else None,
        'status_histogram': {str(k): v for k, v in sorted(stats['status'].items())},
        'op_histogram': dict(stats['ops']),
        'error_fraction': round(sum(v for k, v in stats['status'].items() if k >= 400) / max(1, stats['evaluations']), 3),
    }
    if pid == 'C01':
        cov['float_product_cases_bad'] = float_bad
    common.write_evidence(pid, tier, 'proof', cov, t.s(), len(out.violations),
                          assumptions=['SQLite as the database', 'requests generated are schema-valid (req_wf)',
                                       'enginefacade: a top-level transaction that raises is rolled back'])


def replay(pid, path, out):
    payload = json.load(open(path))
    if payload.get('kind') == 'schedule-extra':
        from harness import conc_extra
        for v in conc_extra.call(pid, 'quick', replay_path=path)['violations'][:1]:
            out.violation(v['payload'], v['text'])
        return
    if payload.get('kind') != 'history':
        # a broken-proof / broken-tie replay: re-run the quick check
        run(pid, 'quick', out)
        return
    op_list = [tuple_op(o) for o in payload['ops']]
    res = failing_prefix(pid, op_list)
    if res is not None:
        out.violation(payload, res[1][0])


def tuple_op(o):
    """JSON lists back to the tuple/dict structure the encoders expect."""
    o = list(o)
    k = o[0]

    def cons(c):
        c = dict(c)
        c['allocs'] = [(rp, [tuple(x) for x in res]) for rp, res in c['allocs']]
        return c

    def inv(i):
        i = dict(i)
        i['_omit'] = tuple(i.get('_omit', ()))
        return i
    if k == 'alloc_put':
        o[2] = cons(o[2])
    elif k == 'alloc_post':
        o[2] = [cons(c) for c in o[2]]
    elif k == 'reshape':
        o[2] = [(u, g, [inv(i) for i in l]) for u, g, l in o[2]]
        o[3] = [cons(c) for c in o[3]]
    elif k == 'inv_set':
        o[4] = [inv(i) for i in o[4]]
    elif k == 'inv_post':
        o[3] = inv(o[3])
    elif k == 'inv_put':
        o[4] = inv(o[4])
    return tuple(o)
