"""Shared machinery of the checks: build, proof status, hygiene, evidence, violations, replays."""
import glob
import hashlib
import json
import os
import re
import subprocess
import sys
import time

ROOT = os.path.dirname(os.path.dirname(os.path.abspath(__file__)))
COQ = os.path.join(ROOT, 'coq')
EVID = os.path.join(ROOT, 'evidence')
REPLAYS = os.path.join(ROOT, 'replays')
WORK = os.path.join(ROOT, 'work')

TRUSTED_BASE = [
    'Coq 8.16.1 kernel incl. vm_compute (no native_compute, no disabled checks, no -type-in-type)',
    'no axioms: every property theorem must print "Closed under the global context"',
    'translators /verif/translate/*.py (Python ast/import readers of /repo tables, fail-closed)',
    'correspondence harness /verif/harness (in-process WSGI app on SQLite, canonical dumps, generators, oracles)',
    'modelled not verified: SQL evaluation as list functions, oslo.db enginefacade transaction scoping, '
    'webob/Routes/json parsing, IEEE-754 double product re-implemented over Z (validated bit-exactly each run)',
]


def seed():
    try:
        return int(os.environ.get('VERIF_SEED', '20261001'))
    except ValueError:
        return 20261001


def build():
    """translate + make -k; returns (ok_translate, log)"""
    os.makedirs(WORK, exist_ok=True)
    subprocess.run([os.path.join(ROOT, 'build.sh')], cwd=ROOT, timeout=3400)
    tlog = open(os.path.join(WORK, 'translate.log')).read() if os.path.exists(os.path.join(WORK, 'translate.log')) else ''
    blog = open(os.path.join(WORK, 'build.log')).read() if os.path.exists(os.path.join(WORK, 'build.log')) else ''
    return ('TRANSLATOR FAILED' not in tlog), tlog, blog


def vo_fresh(rel):
    """the .vo exists and is newer than its source"""
    v = os.path.join(COQ, rel)
    vo = v + 'o'
    return os.path.exists(vo) and os.path.getmtime(vo) >= os.path.getmtime(v)


HYGIENE_RE = re.compile(
    r'\b(Admitted|admit|Axiom|Axioms|Parameter|Parameters|Conjecture|Hypothesis|Variable|Variables|Hypotheses|'
    r'Unset\s+Guard|bypass_check|native_compute|Admit\s+Obligations|type-in-type|impredicative-set)\b')


def hygiene():
    """forbidden vocabulary outside comments and outside Sections (Variable/Hypothesis allowed inside a Section)"""
    bad = []
    for path in sorted(glob.glob(os.path.join(COQ, '*', '*.v'))):
        txt = open(path).read()
        txt = strip_comments(txt)
        depth = 0
        for ln, line in enumerate(txt.split('\n'), 1):
            if re.match(r'\s*Section\b', line):
                depth += 1
            elif re.match(r'\s*End\b', line) and depth > 0:
                depth -= 1
            for m in HYGIENE_RE.finditer(line):
                w = m.group(1)
                if w in ('Variable', 'Variables', 'Hypothesis', 'Hypotheses') and depth > 0:
                    continue
                bad.append('%s:%d: %s' % (os.path.relpath(path, ROOT), ln, w))
    return bad


def strip_comments(txt):
    out = []
    depth = 0
    i = 0
    while i < len(txt):
        if txt.startswith('(*', i):
            depth += 1
            i += 2
        elif txt.startswith('*)', i) and depth > 0:
            depth -= 1
            i += 2
        else:
            if depth == 0:
                out.append(txt[i])
            elif txt[i] == '\n':
                out.append('\n')
            i += 1
    return ''.join(out)


def import_closure(rel):
    """every file of the development that `rel` imports, directly or not (`From PV Require Import/Export A.B ...`), in
    dependency-first order, `rel` itself excluded: the freshness test and the lemma count of a property cover the whole cone of
    its Props file, whatever the hand-written DEPS lists say"""
    seen, order = set(), []

    def visit(r):
        path = os.path.join(COQ, r)
        if r in seen or not os.path.exists(path):
            return
        seen.add(r)
        src = strip_comments(open(path).read())
        for m in re.finditer(r'From\s+PV\s+Require\s+(?:Import|Export)\s+(.*?)\.(?=\s|$)', src, re.S):
            for mod in m.group(1).split():
                if re.fullmatch(r'[A-Za-z_]\w*\.[A-Za-z_]\w*', mod):
                    visit(mod.replace('.', '/') + '.v')
        order.append(r)
    visit(rel)
    return [r for r in order if r != rel]


def proof_status(pid, deps):
    """Compile Props/<pid>.v (its dependencies must have been built) and read Print Assumptions.

    Returns dict(ok, theorems=[(name, closed, assumptions)], lemmas=int, error=str|None)."""
    deps = list(deps) + [d for d in import_closure('Props/%s.v' % pid) if d not in deps]
    res = {'ok': False, 'theorems': [], 'lemmas': 0, 'error': None, 'deps': deps}
    for d in deps:
        if not vo_fresh(d):
            res['error'] = 'dependency %s did not build (see work/build.log)' % d
            res['broken'] = d
            return res
    prop = 'Props/%s.v' % pid
    p = subprocess.run(['timeout', '900', 'coqc', '-Q', '.', 'PV', prop], cwd=COQ, capture_output=True, text=True)
    if p.returncode != 0:
        res['error'] = (p.stderr or p.stdout)[-1500:]
        res['broken'] = prop
        return res
    src = strip_comments(open(os.path.join(COQ, prop)).read())
    names = re.findall(r'\b(?:Theorem|Corollary)\s+(\w+)', src)
    printed = re.findall(r'Print Assumptions\s+(\w+)', src)
    chunks = re.split(r'(?=Closed under the global context|Axioms:|Section Variables:)', p.stdout)
    chunks = [c for c in chunks if c.startswith(('Closed', 'Axioms', 'Section'))]
    if len(chunks) != len(printed):
        res['error'] = 'cannot match Print Assumptions output (%d blocks for %d commands)' % (len(chunks), len(printed))
        return res
    ok = True
    for n, c in zip(printed, chunks):
        closed = c.startswith('Closed under the global context')
        res['theorems'].append((n, closed, '' if closed else c.strip()[:400]))
        ok = ok and closed
    missing = [n for n in names if n not in printed]
    if missing:
        res['error'] = 'theorems without Print Assumptions: %s' % missing
        ok = False
    # count lemmas in the dependency cone (measured from the sources)
    n = 0
    for d in deps:
        if d.startswith('Proofs/') or d.startswith('Spec/'):
            s = strip_comments(open(os.path.join(COQ, d)).read())
            n += len(re.findall(r'^\s*(?:Lemma|Theorem|Corollary|Fact|Remark|Example)\s+\w+', s, re.M))
    res['lemmas'] = n
    res['ok'] = ok and bool(printed)
    if res['ok'] and os.environ.get('VERIF_TIER_EFFECTIVE') == 'thorough':
        ck = coqchk(pid)
        COQCHK.clear()
        COQCHK.update(ck)
        if not ck['ok']:
            res['ok'] = False
            res['error'] = 'coqchk: %s' % ck['detail'][-600:]
            res['broken'] = 'coqchk PV.Props.%s' % pid
    return res


COQCHK = {}


def coqchk(pid):
    """thorough tier: re-check the compiled property file and everything it depends on with the independent checker;
    its context summary must list no axiom, no type-in-type, no unsafe fixpoint, no assumed positivity"""
    t0 = time.time()
    try:
        p = subprocess.run(['timeout', '1500', 'coqchk', '-silent', '-o', '-Q', '.', 'PV', 'PV.Props.%s' % pid], cwd=COQ,
                           capture_output=True, text=True)
    except Exception as exc:      # noqa
        return {'ok': False, 'detail': str(exc), 'wall_s': round(time.time() - t0, 1)}
    out = p.stdout + p.stderr
    summary = out[out.find('CONTEXT SUMMARY'):] if 'CONTEXT SUMMARY' in out else out[-800:]
    fields = re.findall(r'\* ([^:\n]+):\s*(<none>|[^*]*)', summary)
    clean = p.returncode == 0 and bool(fields) and all(v.strip() == '<none>' for k, v in fields if not k.startswith('Theory'))
    return {'ok': clean, 'detail': ' | '.join('%s: %s' % (k.strip(), ' '.join(v.split())[:200]) for k, v in fields) or out[-600:],
            'wall_s': round(time.time() - t0, 1),
            'cmd': 'cd /verif/coq && coqchk -silent -o -Q . PV PV.Props.%s' % pid}


def write_evidence(pid, tier, level, coverage, wall_s, violations, assumptions=None):
    os.makedirs(EVID, exist_ok=True)
    if COQCHK:
        coverage = dict(coverage, coqchk=dict(COQCHK))
    ev = {'property_id': pid, 'tier': tier, 'seed': seed(), 'level': level, 'coverage': coverage,
          'assumptions': assumptions or [], 'wall_s': round(wall_s, 2), 'violations': violations}
    with open(os.path.join(EVID, '%s.json' % pid), 'w') as f:
        json.dump(ev, f, indent=1, default=str)


def save_replay(pid, payload):
    os.makedirs(REPLAYS, exist_ok=True)
    blob = json.dumps(payload, sort_keys=True, default=str)
    h = hashlib.sha1(blob.encode()).hexdigest()[:12]
    path = os.path.join(REPLAYS, '%s-%s.json' % (pid, h))
    with open(path, 'w') as f:
        json.dump(payload, f, indent=1, default=str)
    return path


def load_known():
    path = os.path.join(ROOT, 'known_findings.json')
    if not os.path.exists(path):
        return []
    return json.load(open(path)).get('findings', [])


class Outcome(object):
    """Collects violations / known findings of one check run and prints the protocol lines."""

    def __init__(self, pid):
        self.pid = pid
        self.violations = []      # (replay_path, text, no_input)
        self.known = []
        self.notes = []

    def violation(self, payload, text, no_input=False):
        payload = dict(payload)
        payload.setdefault('property', self.pid)
        payload['what'] = text
        path = save_replay(self.pid, payload)
        self.violations.append((path, text, no_input))

    def known_finding(self, text):
        if text not in self.known:
            self.known.append(text)

    def finish(self):
        for k in self.known:
            print('KNOWN-FINDING: property=%s %s' % (self.pid, k))
        seen = set()
        for path, text, no_input in self.violations:
            if path in seen:
                continue
            seen.add(path)
            print('VIOLATION property=%s replay=%s%s' % (self.pid, path, ' no-failing-input-found' if no_input else ''))
            print('  # %s' % text[:300])
        sys.stdout.flush()
        return 1 if self.violations else 0


class Timer(object):
    def __init__(self):
        self.t = time.time()

    def s(self):
        return time.time() - self.t
