"""Concurrency scenarios: enumeration of interleavings at transaction granularity on the real
application, and the oracles of C05 / C06 / C07 (evaluated on the implementation only)."""
import itertools
import os
import random

from harness import hist
from harness import impl
from harness import ops
from harness import sched

U = ops.uuid_of
CORE = (0, 1, 2, 3, 7, 8, 9, 10, 11)     # tables of the canonical dump that are not auxiliary names


def init_engine():
    path = '/dev/shm/pv_sched_%d.db' % os.getpid() if os.path.isdir('/dev/shm') else \
        os.path.join(os.path.dirname(os.path.dirname(os.path.abspath(__file__))), 'work', 'sched_%d.db' % os.getpid())
    if os.path.exists(path):
        os.remove(path)
    impl.init(db_url='sqlite:///' + path)
    _DB['path'] = path
    import atexit

    def _cleanup():
        for f in [path] + list(_DB['snap'].values()):
            try:
                os.remove(f)
            except OSError:
                pass
    atexit.register(_cleanup)
    return path


def core(dump):
    return [dump[i] for i in CORE]


class Scenario(object):
    def __init__(self, name, setup, requests, guards=None, fault=None):
        self.name = name
        self.setup = setup            # abstract ops run sequentially first
        self.requests = requests      # abstract ops run concurrently
        self.guards = guards or []    # [(request index, 'rp'|'cons', uuid token, generation or None)]
        self.fault = fault            # (thread, statement fragment, count): duplicate-key errors injected into that thread

    def to_json(self):
        return {'name': self.name, 'setup': self.setup, 'requests': self.requests, 'guards': self.guards, 'fault': self.fault}


_DB = {'path': None, 'app': None, 'snap': {}}


def start(scn):
    """Application positioned at the scenario's start state. The populated database file is
    snapshotted the first time and restored by file copy afterwards (NullPool: no open connections)."""
    import shutil
    key = repr(scn.setup)
    if _DB['app'] is None:
        _DB['app'] = impl.App()
    app = _DB['app']
    path = _DB['path']
    if path and key in _DB['snap']:
        shutil.copyfile(_DB['snap'][key], path)
        return app
    fresh = impl.App()
    _DB['app'] = fresh
    for op in scn.setup:
        r, obs = hist.observe(fresh, op)
        assert obs[0] < 300, ('scenario setup failed', scn.name, op, obs, r.body[:200])
    if path:
        snap = '%s.snap%d' % (path, len(_DB['snap']))
        shutil.copyfile(path, snap)
        _DB['snap'][key] = snap
    return fresh


def run_schedule(scn, schedule):
    app = start(scn)
    reqs = [ops.op_http(op) for op in scn.requests]
    if getattr(scn, 'fault', None):
        sched.FAULT.update(tid=scn.fault[0], match=scn.fault[1], left=scn.fault[2])
    if getattr(scn, 'crash', None):
        sched.FAULT.update(tid=scn.crash[0], crash_at=scn.crash[1], seen=0)
    try:
        res, trace, used = sched.run_concurrent(app, reqs, schedule)
    finally:
        scn.statements_seen = sched.FAULT.get('seen', 0)
        sched.FAULT.update(tid=None, match='', left=0, crash_at=None, seen=0)
    dump = ops.canon_dump(app.raw_dump())
    obs = []
    for op, r in zip(scn.requests, res):
        if isinstance(r, BaseException):
            obs.append((599, 99, -1, repr(r)[:200]))
        else:
            code = ops.ERROR_CODES.get(r.error_code(), 99) if r.status >= 400 else 0
            obs.append((r.status, code, ops.resp_gen(op, r), None))
    return obs, dump, trace, used


def run_serial(scn, order):
    """Run the given requests (indices) one after another from the scenario's start state."""
    app = start(scn)
    obs = []
    for i in order:
        r, o = hist.observe(app, scn.requests[i])
        obs.append(o)
    dump = ops.canon_dump(app.raw_dump())
    return obs, dump


def all_schedules(scn, limit=None, rng=None):
    """Enumerate the distinct interleavings (as the sequence of thread ids actually used) by DFS with
    re-execution. Yields (used, obs, dump, trace)."""
    n = len(scn.requests)
    seen = set()
    seen_prefix = set()
    stack = [[]]
    count = 0
    while stack:
        prefix = stack.pop()
        if tuple(prefix) in seen_prefix:
            continue
        seen_prefix.add(tuple(prefix))
        obs, dump, trace, used = run_schedule(scn, prefix)
        # `used` = prefix (possibly skipping finished threads) + default continuation
        used_t = tuple(used)
        if used_t in seen:
            continue
        seen.add(used_t)
        count += 1
        yield used, obs, dump, trace
        if limit is not None and count >= limit:
            return
        # branch: at every position after the prefix, try the other threads
        for pos in range(len(prefix), len(used)):
            for t in range(n):
                if t != used[pos]:
                    cand = list(used[:pos]) + [t]
                    # only if thread t is still alive at that point: it appears later in `used`
                    if t in used[pos:]:
                        stack.append(cand)
        if rng is not None:
            rng.shuffle(stack)


def gap_schedules(scn, k_max=14):
    """Targeted: run request j entirely inside every gap of request i (for every ordered pair)."""
    n = len(scn.requests)
    out = []
    for i in range(n):
        for j in range(n):
            if i == j:
                continue
            others = [t for t in range(n) if t not in (i, j)]
            for k in range(k_max):
                out.append([i] * k + [j] * k_max + [i] * k_max + [t for t in others for _ in range(k_max)])
    return out


# ------------------------------------------------------------------------------------------ oracles
def serializable(scn, obs, dump):
    """The successful requests, run serially in some order from the same start state, all succeed and
    produce the same core state; (then the failed ones had no effect)."""
    ok = [i for i, o in enumerate(obs) if o[0] < 300]
    target = core(dump)
    tried = []
    for order in itertools.permutations(ok):
        sobs, sdump = run_serial(scn, order)
        all_ok = all(o[0] < 300 for o in sobs)
        tried.append((list(order), [o[0] for o in sobs], core(sdump) == target))
        if all_ok and core(sdump) == target:
            return True, tried
    return False, tried


def oracle(pid, scn, obs, dump):
    """-> list of violation strings for property pid on one executed schedule."""
    v = []
    for i, o in enumerate(obs):
        if o[0] >= 500:
            v.append('request %d answered %d (%s)' % (i, o[0], o[3] or ''))
    if pid in ('C05', 'C06'):
        kind = 'rp' if pid == 'C05' else 'cons'
        groups = {}
        for (i, k, u, g) in scn.guards:
            if k == kind:
                groups.setdefault((u, g), []).append(i)
        for (u, g), idx in groups.items():
            winners = [i for i in idx if obs[i][0] < 300]
            if len(winners) > 1:
                v.append('requests %r all carry generation %r of %s %d and all succeeded' % (winners, g, kind, u))
        for (i, k, u, g) in scn.guards:
            if k == kind and 400 <= obs[i][0] < 500 and obs[i][0] == 409 and obs[i][1] not in (1, -1) \
                    and scn.requests[i][0] not in ('alloc_put', 'alloc_post', 'reshape'):
                v.append('request %d rejected with 409 but code %d' % (i, obs[i][1]))
    if not any(o[0] >= 500 for o in obs):
        good, tried = serializable(scn, obs, dump)
        if not good:
            v.append('outcome %r is not equivalent to any serial execution of the successful requests: %r'
                     % ([o[0] for o in obs], tried))
    return v
