"""Interleavings for the properties whose theorems are about sequential histories (C04 C08 C09 C10 C12): fixed
scenarios of two requests that touch the same entity, executed on the real application under the gap schedules and
a depth-first enumeration of transaction-granular interleavings, judged by

  * no 5xx,
  * serial equivalence (conc.serializable): the successful requests, run one after another in SOME order from the same
    start state, all succeed and give the same core tables - so an accepted request took effect completely, a rejected
    one not at all, every generation moved as in that serial order,
  * the state invariants of C08 (nothing dangles) and C09 (forest, root pointers) on the final tables.

Oracle only: provider create/update/delete and class/trait CRUD are outside Model/Conc.v, so these executions are not
compared with the Coq model (the model-compared schedule streams are those of C05/C06/C07).  Resource classes and
traits count as core tables here, so that a transaction reading them is a scheduling point of its own.

Runs in its own process (file database, one engine per process):
    python -m harness.conc_extra <PID> <quick|thorough> [--replay FILE]   -> one JSON document on the last line of stdout
"""
import collections
import json
import os
import random
import sys

from harness import sched
BASE_CORE_TABLES = sched.CORE_TABLES

from harness import checks_conc  # noqa: E402
from harness import conc  # noqa: E402
from harness import ops  # noqa: E402
from harness import oracles  # noqa: E402

inv = checks_conc.inv
cons = checks_conc.cons

# start state: tree 1 -> 4 -> 5, roots 2, 3 (bare), 6 (second tree, with inventory); custom class 1000 without inventory,
# custom class 1001 with inventory on 2; custom trait 100001 unassociated, 100002 on provider 1; aggregate 1 shared by 1 and 2;
# consumer 2 holds VCPU on 2, consumer 3 holds VCPU on 1 and DISK on 4
SETUP = [
    ('rc_create', 39, 1000), ('rc_create', 39, 1001), ('trait_put', 39, 100001), ('trait_put', 39, 100002),
    ('rp_create', 39, 1, 1, None), ('inv_set', 39, 1, 0, [inv(0, 8), inv(2, 100)]),
    ('rp_create', 39, 2, 2, None), ('inv_set', 39, 2, 0, [inv(0, 8), inv(1001, 4)]),
    ('rp_create', 39, 3, 3, None),
    ('rp_create', 39, 4, 4, 1), ('inv_set', 39, 4, 0, [inv(2, 50)]),
    ('rp_create', 39, 5, 5, 4),
    ('rp_create', 39, 6, 6, None), ('inv_set', 39, 6, 0, [inv(0, 4)]),
    ('traits_set', 39, 1, 1, [100002]), ('aggs_set', 39, 1, 2, [1]), ('aggs_set', 39, 2, 1, [1]),
    ('alloc_put', 39, cons(2, None, [(2, [(0, 1)])])),
    ('alloc_put', 39, cons(3, None, [(1, [(0, 2)]), (4, [(2, 10)])])),
]
# the C09 scenarios are compared with Model/ConcTree.v: same tree, standard classes only
TREE_SETUP = [op for op in SETUP if op[0] not in ('rc_create', 'trait_put') and not (op[0] == 'inv_set' and any(i['rc'] >= 1000 for i in op[4]))
              and not (op[0] == 'traits_set')]
TREE_SETUP = [op if op[0] != 'aggs_set' else (op[0], op[1], op[2], op[3] - (1 if op[2] == 1 else 0), op[4]) for op in TREE_SETUP]
TREE_SETUP.insert(TREE_SETUP.index(('rp_create', 39, 3, 3, None)), ('inv_set', 39, 2, 0, [inv(0, 8)]))
# provider generations after the set-up: 1: inv, traits, aggs, alloc = 4; 2: inv, aggs, alloc = 3; 3: 0; 4: inv, alloc = 2; 5: 0; 6: 1
G = {1: 4, 2: 3, 3: 0, 4: 2, 5: 0, 6: 1}

SCENARIOS = {
    'C04': [
        ('attr-change-vs-inventory', [('alloc_put', 39, dict(cons(2, 1, [(2, [(0, 2)])]), proj=2, user=2)),
                                      ('inv_put', 39, 2, G[2], inv(0, 16))]),
        ('post-two-consumers-vs-inventory', [('alloc_post', 39, [dict(cons(2, 1, [(2, [(0, 2)])]), proj=2), cons(5, None, [(1, [(0, 1)])])]),
                                             ('inv_set', 39, 1, G[1], [inv(0, 8), inv(2, 200)])]),
        ('reshape-vs-traits', [('reshape', 39, [(6, G[6], [inv(0, 4), inv(1, 64)])], [dict(cons(2, 1, [(6, [(1, 8)])]), type=2)]),
                               ('traits_set', 39, 6, G[6], [100001])]),
        ('type-change-vs-aggregates', [('alloc_put', 38, dict(cons(3, 1, [(1, [(0, 1)])]), type=2)),
                                       ('aggs_set', 39, 1, G[1], [1, 2])]),
    ],
    'C08': [
        ('class-delete-vs-inventory-set', [('rc_delete', 39, 1000), ('inv_set', 39, 3, G[3], [inv(1000, 4)])]),
        ('class-delete-vs-inventory-post', [('rc_delete', 39, 1000), ('inv_post', 39, 3, inv(1000, 4))]),
        ('class-delete-vs-inventory-put-new-provider', [('rc_delete', 39, 1000), ('inv_set', 39, 6, G[6], [inv(0, 4), inv(1000, 2)])]),
        ('class-delete-vs-reshape', [('rc_delete', 39, 1000), ('reshape', 39, [(3, G[3], [inv(1000, 4)])], [])]),
        ('trait-delete-vs-traits-set', [('trait_delete', 39, 100001), ('traits_set', 39, 3, G[3], [100001])]),
        ('provider-delete-vs-claim', [('rp_delete', 6), ('alloc_put', 39, cons(5, None, [(6, [(0, 1)])]))]),
        ('provider-delete-vs-child-create', [('rp_delete', 6), ('rp_create', 39, 7, 7, 6)]),
        ('inventory-delete-vs-claim', [('inv_delete', 6, 0), ('alloc_put', 39, cons(5, None, [(6, [(0, 1)])]))]),
        ('inventory-replace-vs-claim', [('inv_set', 39, 6, G[6], []), ('alloc_post', 39, [cons(5, None, [(6, [(0, 1)])])])]),
        ('inventory-delete-all-vs-claim', [('inv_delete_all', 39, 6), ('alloc_put', 39, cons(5, None, [(6, [(0, 1)])]))]),
        ('reshape-drop-class-vs-claim', [('reshape', 39, [(6, G[6], [])], []), ('alloc_put', 39, cons(5, None, [(6, [(0, 1)])]))]),
        ('provider-delete-vs-inventory-set', [('rp_delete', 3), ('inv_set', 39, 3, G[3], [inv(0, 4)])]),
        ('provider-delete-vs-inventory-post', [('rp_delete', 3), ('inv_post', 39, 3, inv(0, 4))]),
        ('provider-delete-vs-traits-set', [('rp_delete', 3), ('traits_set', 39, 3, G[3], [100002])]),
        ('provider-delete-vs-aggregates-set', [('rp_delete', 3), ('aggs_set', 39, 3, G[3], [1, 2])]),
        ('provider-delete-vs-reshape', [('rp_delete', 3), ('reshape', 39, [(3, G[3], [inv(0, 4)])], [])]),
        # races found by the proof attempt of C08c_ri_all_schedules (Proofs/C08c.v) and repaired by 09e8fa2 / 42072ba / cd58161
        ('aggregates-below-1.19-vs-provider-delete', [('aggs_set', 18, 3, 0, [1, 2]), ('rp_delete', 3)]),
        ('trait-deleted-twice-and-recreated', [('trait_delete', 39, 100001), ('trait_delete', 39, 100001), ('trait_put', 39, 100001),
                                               ('traits_set', 39, 3, G[3], [100001])], [[0, 1, 1, 2, 2, 3, 3, 3, 0]]),
        ('class-rename-vs-delete', [('rc_rename', 6, 1000, 1002), ('rc_delete', 39, 1000)]),
        # ... and the one that is recorded, not repaired (known_findings.json): the reshaper resolves a class name from the
        # per-request cache filled by an earlier transaction of the same request
        ('reshape-wiping-consumer-vs-class-delete', [('reshape', 39, [(3, G[3], [inv(1000, 4)])], [cons(2, 1, [])]), ('rc_delete', 39, 1000)],
         [[0, 0, 0, 1, 1, 0], [0, 0, 1, 1, 0, 0], [0, 0, 0, 0, 1, 1, 0]]),
        # DELETE /allocations/{c} reads c's rows, then deletes them and the consumer in a second transaction: a write that gives
        # c new rows in between must keep the consumer (seed C08-i: the consumer was removed unconditionally)
        ('allocations-delete-vs-replace', [('alloc_delete', 2), ('alloc_put', 39, cons(2, 1, [(2, [(0, 2)])]))]),
        ('allocations-delete-vs-post-move', [('alloc_delete', 3), ('alloc_post', 39, [cons(3, 1, [(6, [(0, 1)])]), cons(2, 1, [])])]),
        ('provider-delete-vs-reshape-claim', [('rp_delete', 6), ('reshape', 39, [(6, G[6], [inv(0, 4), inv(1, 8)])],
                                                                   [cons(5, None, [(6, [(1, 2)])])])]),
    ],
    'C09': [
        ('rename-vs-reparent', [('rp_update', 39, 4, 9, 1), ('rp_update', 39, 4, 4, 6)]),
        ('rename-unparented-vs-reparent', [('rp_update', 39, 4, 9, 'absent'), ('rp_update', 39, 4, 4, 6)]),
        ('cross-reparent', [('rp_update', 39, 4, 4, 6), ('rp_update', 39, 6, 6, 5)]),
        ('reparent-vs-delete-new-parent', [('rp_update', 39, 5, 5, 6), ('rp_delete', 6)]),
        ('delete-parent-vs-create-child', [('rp_delete', 5), ('rp_create', 39, 7, 7, 5)]),
        ('detach-vs-move-child', [('rp_update', 39, 4, 4, None), ('rp_update', 39, 5, 5, 1)]),
        ('move-vs-delete-self', [('rp_update', 39, 5, 5, 6), ('rp_delete', 5)]),
        ('rename-vs-delete-self', [('rp_update', 39, 5, 9, 'absent'), ('rp_delete', 5)]),
    ],
    'C10': [
        ('attr-change-vs-write-same-consumer', [('alloc_put', 39, dict(cons(2, 1, [(2, [(0, 2)])]), proj=2)),
                                                ('alloc_put', 39, cons(2, 1, [(1, [(0, 3)])]))]),
        ('type-change-post-vs-put', [('alloc_post', 38, [dict(cons(3, 1, [(1, [(0, 1)])]), type=2, user=2)]),
                                     ('alloc_put', 38, cons(3, 1, [(4, [(2, 5)])], 38))]),
        ('same-traits-vs-aggregates', [('traits_set', 39, 1, G[1], [100002]), ('aggs_set', 39, 1, G[1], [1])]),
        ('claim-vs-inventory-put', [('alloc_put', 39, cons(5, None, [(6, [(0, 1)])])), ('inv_put', 39, 6, G[6], inv(0, 8))]),
        # a claim over two providers, overtaken by a write to the provider listed SECOND (server-side retry): when it is accepted
        # BOTH providers' generations move (seed C10-h: providers "already incremented" by the rolled-back attempt skipped)
        ('claim-two-providers-vs-inventory-put-second', [('alloc_put', 39, cons(5, None, [(1, [(0, 1)]), (6, [(0, 1)])])),
                                                         ('inv_put', 39, 6, G[6], inv(0, 8))]),
        ('claim-two-providers-vs-traits-second', [('alloc_put', 39, cons(5, None, [(2, [(0, 1)]), (1, [(2, 5)])])),
                                                  ('traits_set', 39, 1, G[1], [100001])]),
        # requests that derive the generation themselves (POST / DELETE inventory, DELETE traits) racing a guarded write
        ('inventory-post-vs-traits', [('inv_post', 39, 3, inv(0, 4)), ('traits_set', 39, 3, G[3], [100002])]),
        ('inventory-delete-vs-traits', [('inv_delete', 6, 0), ('traits_set', 39, 6, G[6], [100002])]),
        ('traits-delete-vs-inventory-put', [('traits_delete', 39, 1), ('inv_put', 39, 1, G[1], inv(0, 16))]),
        ('inventory-delete-all-vs-aggregates', [('inv_delete_all', 39, 6), ('aggs_set', 39, 6, G[6], [2])]),
    ],
    'C11': [
        # reads after interleaved writes: the three views of a consumer's holdings must agree (no duplicated allocation record)
        ('post-new-consumers-vs-put', [('alloc_post', 39, [cons(5, None, [(1, [(0, 1)])]), cons(4, None, [(1, [(2, 5)])])]),
                                       ('alloc_put', 39, cons(2, 1, [(1, [(0, 2)])]))]),
        ('move-vs-put', [('alloc_post', 39, [cons(3, 1, []), cons(5, None, [(1, [(0, 2)]), (4, [(2, 10)])])]),
                         ('alloc_put', 39, cons(2, 1, [(1, [(0, 1)])]))]),
        ('reshape-new-consumer-vs-inventory', [('reshape', 39, [(6, G[6], [inv(0, 4), inv(1, 64)])], [cons(5, None, [(6, [(1, 8)])])]),
                                               ('alloc_put', 39, cons(2, 1, [(6, [(0, 1)])]))]),
        ('put-new-consumer-vs-traits', [('alloc_put', 39, cons(5, None, [(1, [(0, 1), (2, 10)])])), ('traits_set', 39, 1, G[1], [100001])]),
    ],
    'C12': [
        ('delete-vs-put-same-consumer', [('alloc_delete', 2), ('alloc_put', 39, cons(2, 1, [(1, [(0, 1)])]))]),
        ('delete-vs-post-clearing', [('alloc_delete', 3), ('alloc_post', 39, [cons(3, 1, []), cons(5, None, [(6, [(0, 1)])])])]),
        ('create-rejected-vs-create', [('alloc_put', 39, cons(5, None, [(6, [(0, 99)])])), ('alloc_put', 39, cons(5, None, [(6, [(0, 1)])]))]),
        ('reshape-clearing-vs-put', [('reshape', 39, [(6, G[6], [inv(0, 4)])], [cons(2, 1, [])]),
                                     ('alloc_put', 39, dict(cons(2, 1, [(6, [(0, 1)])]), user=2))]),
        # a request that EMPTIES a consumer, overtaken by a write to a provider the consumer holds resources on (the allocation
        # write is retried on the server after the provider generation conflict): the consumer must still go (seed C12-f)
        ('put-empty-vs-inventory-put', [('alloc_put', 39, cons(2, 1, [])), ('inv_put', 39, 2, G[2], inv(0, 16))]),
        ('post-empty-vs-traits', [('alloc_post', 39, [cons(2, 1, [])]), ('traits_set', 39, 2, G[2], [100001])]),
        ('post-move-vs-inventory-put', [('alloc_post', 39, [cons(3, 1, []), cons(5, None, [(1, [(0, 2)])])]),
                                        ('inv_put', 39, 4, G[4], inv(2, 60))]),
        ('reshape-emptying-vs-inventory-put', [('reshape', 39, [(6, G[6], [inv(0, 4), inv(1, 64)])], [cons(3, 1, [])]),
                                               ('inv_put', 39, 1, G[1], inv(0, 16))]),
    ],
}
# scenarios judged by the oracles only (none at present)
MODEL_SKIP = set()
BUDGET = {'quick': 24, 'thorough': 400}        # executed interleavings per scenario


def guarded(op):
    """requests that carry the generation of everything they change (the scope of C05/C06/C07): only among these is
    serial equivalence promised; PUT/DELETE of a provider, DELETE of allocations, class and trait CRUD carry none"""
    if op[0] in ('alloc_put', 'alloc_post', 'reshape'):
        return op[1] >= 28
    if op[0] in ('inv_set', 'inv_put', 'traits_set'):
        return True
    if op[0] == 'aggs_set':
        return op[1] >= 19
    return False


def named_consumers(op):
    return [op[2]] if op[0] == 'alloc_put' else (op[2] if op[0] == 'alloc_post' else (op[3] if op[0] == 'reshape' else []))


def judge(pid, scn, obs, dump, start_dump):
    v = []
    for i, o in enumerate(obs):
        if o[0] >= 500:
            v.append(('5xx', 'request %d (%s) answered %d %s' % (i, scn.requests[i][0], o[0], o[3] or '')))
    noop = ('noop',)
    # state invariants, whatever the requests were: nothing dangles (C08), the hierarchy is a forest with right roots (C09),
    # no allocation without a consumer record (C12; a consumer without allocations can be the residue of a recorded finding)
    for text in oracles.c08(noop, (200, 0, -1), start_dump, dump)[:2]:
        v.append(('dangling', text))
    for text in oracles.c09(noop, (200, 0, -1), start_dump, dump)[:2]:
        v.append(('forest', text))
    # generations never decrease; every successful allocation write moved the generation of each consumer it names
    g0 = {r[0]: r[2] for r in start_dump[0]}
    for r in dump[0]:
        if r[0] in g0 and r[2] < g0[r[0]]:
            v.append(('generation', 'generation of provider %d went from %d to %d' % (r[0], g0[r[0]], r[2])))
    c0 = {r[0]: r[4] for r in start_dump[3]}
    c1 = {r[0]: r[4] for r in dump[3]}
    deletes = any(op[0] == 'alloc_delete' for op in scn.requests)
    for c, g in c1.items():
        if c in c0 and not deletes:
            n = sum(1 for op, o in zip(scn.requests, obs) if o[0] < 300 and any(k['uuid'] == c for k in named_consumers(op)))
            if g < c0[c] + n:
                v.append(('generation', 'consumer %d was written by %d successful requests but its generation went from %d to %d'
                          % (c, n, c0[c], g)))
    # every successful request of these scenarios CHANGES its provider (the scenarios are written that way, except the one
    # named below): the provider's generation moved at least once per successful changing request
    if scn.name not in ('same-traits-vs-aggregates',):
        bump = collections.Counter()
        for op, o in zip(scn.requests, obs):
            if o[0] < 300:
                if op[0] in ('inv_post', 'inv_put', 'inv_set', 'traits_set', 'traits_delete', 'inv_delete_all'):
                    bump[op[2]] += 1
                elif op[0] == 'inv_delete':
                    bump[op[1]] += 1
                elif op[0] == 'aggs_set' and op[1] >= 19:
                    bump[op[2]] += 1
                elif op[0] == 'alloc_put' and op[2]['allocs'] and not any(a[0] == op[2]['uuid'] for a in start_dump[2]):
                    # a first claim: every provider it names is changed by it
                    for u, _rows in op[2]['allocs']:
                        bump[u] += 1
        g1 = {r[0]: r[2] for r in dump[0]}
        for u, n in bump.items():
            if u in g0 and u in g1 and g1[u] < g0[u] + n:
                v.append(('generation', 'provider %d was changed by %d successful requests but its generation went from %d to %d'
                          % (u, n, g0[u], g1[u])))
    # one record per (consumer, provider, class): the reads of a consumer's holdings, of a provider's allocations and of its
    # usages are all computed from these records and disagree when one is duplicated
    rows = collections.Counter((a[0], a[1], a[2]) for a in dump[2])
    for key, n in rows.items():
        if n > 1:
            v.append(('duplicate', 'consumer %d holds %d allocation records of class %d on provider %d: usages count them all, '
                      'GET /allocations/{consumer} shows one' % (key[0], n, key[2], key[1])))
            break
    # an accepted allocation write took effect completely when nobody else names its consumer
    for op, o in zip(scn.requests, obs):
        if o[0] < 300:
            for k in named_consumers(op):
                others = sum(1 for op2 in scn.requests if op2 is not op and (
                    any(k2['uuid'] == k['uuid'] for k2 in named_consumers(op2)) or (op2[0] == 'alloc_delete' and op2[1] == k['uuid'])))
                if others or not k['allocs']:
                    continue
                row = [r for r in dump[3] if r[0] == k['uuid']]
                if not row:
                    v.append(('incomplete', 'accepted %s: consumer %d has no record' % (op[0], k['uuid'])))
                    continue
                want = (k['proj'], k['user'], k['type'] if k.get('type') is not None else row[0][3])
                if (row[0][1], row[0][2], row[0][3]) != want:
                    v.append(('incomplete', 'accepted %s names project/user/type %r for consumer %d, stored is %r'
                              % (op[0], want, k['uuid'], (row[0][1], row[0][2], row[0][3]))))
    # an accepted request that empties a consumer nobody else names leaves no consumer record (C12)
    for op, o in zip(scn.requests, obs):
        if o[0] < 300:
            for k in named_consumers(op):
                others = sum(1 for op2 in scn.requests if op2 is not op and (
                    any(k2['uuid'] == k['uuid'] for k2 in named_consumers(op2)) or (op2[0] == 'alloc_delete' and op2[1] == k['uuid'])))
                if k['allocs'] or others:
                    continue
                if any(r[0] == k['uuid'] for r in dump[3]):
                    v.append(('consumer-left', 'accepted %s emptied consumer %d, whose record is still there%s' % (
                        op[0], k['uuid'], ' with allocations' if any(a[0] == k['uuid'] for a in dump[2]) else ' without allocations')))
    if not any(o[0] >= 500 for o in obs) and all(guarded(op) for op in scn.requests):
        good, tried = conc.serializable(scn, obs, dump)
        if not good:
            v.append(('nonserializable', 'requests %r answered %r under this interleaving; no serial order of the successful ones '
                      'gives these answers and this state (orders tried: %r)'
                      % ([r[0] for r in scn.requests], [o[0] for o in obs], [(t[0], t[1], t[2]) for t in tried])))
    return v


def known(scn, obs):
    """the two recorded consumer-generation findings (known_findings.json, C06/C07) - not charged to these properties"""
    return checks_conc.known_pattern(scn, obs) or checks_conc.double_wipe(scn, obs)


def cached_class_race(scn, obs, text):
    """the recorded finding (known_findings.json, C08, pattern reshape-cached-class-vs-class-delete): an accepted POST /reshaper
    that names a consumer with empty allocations (which fills the request's resource class cache) and adds inventory of a custom
    class, together with an accepted DELETE of that class - the inventory then refers to a missing resource class"""
    if 'refers to a missing resource class' not in text:
        return False
    wipes = any(op[0] == 'reshape' and o[0] < 300 and any(not k['allocs'] for k in op[3]) and
                any(i['rc'] >= 1000 for (_u, _g, l) in op[2] for i in l) for op, o in zip(scn.requests, obs))
    deletes = any(op[0] == 'rc_delete' and o[0] < 300 for op, o in zip(scn.requests, obs))
    return wipes and deletes


def set_granularity(pid):
    # C08 races class / trait CRUD against their users: there a transaction reading resource_classes or traits is a
    # scheduling point of its own (the granularity of Model/ConcAll.v's class and trait threads); elsewhere the granularity
    # is that of the C05-C07 schedule streams (Model/Conc.v)
    # (the trait look-up of PUT /resource_providers/{u}/traits is a step of its own in ConcAll: traits is a core table everywhere)
    sched.CORE_TABLES = BASE_CORE_TABLES + (('resource_classes', 'traits') if pid == 'C08' else ('traits',))


def run(pid, tier, seed):
    set_granularity(pid)
    conc.init_engine()
    rng = random.Random(seed * 31 + int(pid[1:]))
    per = BUDGET[tier]
    stats = {'scenarios': 0, 'schedules': 0, 'outcomes': collections.Counter(), 'known_pattern_schedules': 0}
    viols = []
    tree_cases = []
    all_cases = []
    for entry in SCENARIOS[pid]:
        name, reqs = entry[0], entry[1]
        explicit = entry[2] if len(entry) > 2 else []
        scn = conc.Scenario(name, TREE_SETUP if pid == 'C09' else SETUP, reqs, [])
        app = conc.start(scn)
        start_dump = ops.canon_dump(app.raw_dump())
        gens = {r[0]: r[2] for r in start_dump[0]}
        assert pid == 'C09' or all(gens.get(u) == g for u, g in G.items()), ('set-up generations differ from the table G', gens)
        stats['scenarios'] += 1
        seen = set()
        runs = []
        for sch in explicit:
            obs, dump, trace, used = conc.run_schedule(scn, sch)
            if tuple(used) not in seen:
                seen.add(tuple(used))
                runs.append((used, obs, dump))
        for sch in conc.gap_schedules(scn, k_max=10):
            obs, dump, trace, used = conc.run_schedule(scn, sch)
            if tuple(used) not in seen:
                seen.add(tuple(used))
                runs.append((used, obs, dump))
            if len(runs) >= per:
                break
        if len(runs) < per:
            for used, obs, dump, trace in conc.all_schedules(scn, limit=per, rng=rng):
                if tuple(used) not in seen:
                    seen.add(tuple(used))
                    runs.append((used, obs, dump))
                if len(runs) >= per:
                    break
        for used, obs, dump in runs:
            if pid == 'C09':
                tree_cases.append((scn, list(used), [o[0] for o in obs], dump))
            elif scn.name not in MODEL_SKIP:
                all_cases.append((scn, list(used), [o[0] for o in obs], dump))
            stats['schedules'] += 1
            stats['outcomes'][str(tuple(o[0] for o in obs))] += 1
            for kind, text in judge(pid, scn, obs, dump, start_dump):
                if kind == 'nonserializable' and known(scn, obs):
                    stats['known_pattern_schedules'] += 1
                    continue
                if kind == 'dangling' and cached_class_race(scn, obs, text):
                    stats['known_cached_class_schedules'] = stats.get('known_cached_class_schedules', 0) + 1
                    continue
                viols.append({'payload': {'kind': 'schedule-extra', 'scenario': scn.to_json(), 'schedule': list(used),
                                          'statuses': [o[0] for o in obs], 'check': kind}, 'text': text})
    stats['outcomes'] = dict(stats['outcomes'])
    res = {'violations': viols, 'stats': stats}
    if pid != 'C09':
        # every request kind is a thread of Model/ConcAll.v (theorems C08_ri_all_schedules_partial ...): every executed schedule
        # is replayed there - statuses and core tables must agree
        try:
            # C08 runs at the fine granularity (the class cache load of a request is a slot of its own), the others at the
            # coarse one (it runs together with the following transaction)
            bad = tree_model_check(all_cases, setup=SETUP, module='ConcAll',
                                   fn='a_sched_agrees' if pid == 'C08' else 'a_sched_agrees_coarse', rcmap={1000: 10000, 1001: 10001})
            stats['model_compared_schedules'] = len(all_cases)
            stats['model_disagreements'] = len(bad)
            if bad:
                c = all_cases[bad[0]]
                res['model_error'] = ('Model/ConcAll.v disagrees with the service on %d of %d schedules; first: scenario %s schedule %r '
                                      'statuses %r' % (len(bad), len(all_cases), c[0].name, c[1], c[2]))
                res['model_bad'] = [(all_cases[i][0].name, all_cases[i][1], all_cases[i][2]) for i in bad[:12]]
        except Exception as exc:        # noqa
            res['model_error'] = 'Model/ConcAll.v could not be evaluated: %s' % str(exc)[-500:]
    if pid == 'C09':
        # provider create / update / delete are modelled under interleaving (Model/ConcTree.v, theorems C09_forest_all_schedules
        # ...): every executed schedule is replayed in the model - statuses and core tables must agree
        try:
            bad = tree_model_check(tree_cases)
            stats['model_compared_schedules'] = len(tree_cases)
            stats['model_disagreements'] = len(bad)
            if bad:
                c = tree_cases[bad[0]]
                res['model_error'] = ('Model/ConcTree.v disagrees with the service on %d of %d schedules; first: scenario %s schedule %r '
                                      'statuses %r' % (len(bad), len(tree_cases), c[0].name, c[1], c[2]))
        except Exception as exc:        # noqa
            res['model_error'] = 'Model/ConcTree.v could not be evaluated: %s' % str(exc)[-500:]
    return res


def tree_model_check(cases, setup=None, module='ConcTree', fn='tt_sched_agrees', rcmap=None):
    """cases: [(scenario, used schedule, statuses, dump)] -> indices on which the model's *_sched_agrees is false"""
    from harness import coqrun
    import tempfile
    setup = TREE_SETUP if setup is None else setup
    rcmap = rcmap or {}
    workdir = tempfile.mkdtemp(prefix='pvtree', dir='/dev/shm' if os.path.isdir('/dev/shm') else None)
    path = os.path.join(workdir, 'tree_cases.v')
    with open(path, 'w') as f:
        f.write('From PV Require Import Model.%s.\nDefinition cf := mkCfg 0 0.\n' % module)
        f.write('Definition setup := %s.\n' % ops.lst(ops.op_coq(o, rcmap) for o in setup))
        for i, (scn, used, sts, dmp) in enumerate(cases):
            f.write('Definition c%d := %s cf (setup, %s, %s, %s, %s).\n' % (
                i, fn, ops.lst(ops.op_coq(o, rcmap) for o in scn.requests), ops.lst(ops.z(x) for x in used),
                ops.lst(ops.z(x) for x in sts), ops.dump_coq(dmp)))
        f.write('Eval vm_compute in [%s].\n' % '; '.join('(if c%d then 1 else 0)' % i for i in range(len(cases))))
    vals = coqrun.run_coq(path, timeout=1200)
    import shutil
    shutil.rmtree(workdir, ignore_errors=True)
    return [i for i, v in enumerate(vals) if v != 1]


def replay(pid, path):
    from harness.checks_seq import tuple_op
    p = json.load(open(path))
    set_granularity(pid)
    conc.init_engine()
    s = p['scenario']
    scn = conc.Scenario(s['name'], [tuple_op(o) for o in s['setup']], [tuple_op(o) for o in s['requests']], [])
    app = conc.start(scn)
    start_dump = ops.canon_dump(app.raw_dump())
    obs, dump, trace, used = conc.run_schedule(scn, p['schedule'])
    viols = []
    for kind, text in judge(pid, scn, obs, dump, start_dump):
        if kind == p.get('check') and not (kind == 'nonserializable' and known(scn, obs)):
            viols.append({'payload': dict(p), 'text': text})
    return {'violations': viols, 'stats': {}}


def main(argv):
    pid, tier = argv[1], argv[2]
    seed = int(os.environ.get('VERIF_SEED', '20261001') or 20261001)
    try:
        if '--replay' in argv:
            res = replay(pid, argv[argv.index('--replay') + 1])
        else:
            res = run(pid, tier, seed)
    except Exception as exc:        # noqa
        import traceback
        res = {'violations': [], 'stats': {}, 'error': '%s: %s' % (type(exc).__name__, traceback.format_exc()[-1500:])}
    print('\nCONC_EXTRA_RESULT ' + json.dumps(res, default=str))
    return 0


def call(pid, tier, replay_path=None):
    """run this module in a process of its own -> result dict"""
    import subprocess
    cmd = [sys.executable, '-m', 'harness.conc_extra', pid, tier] + (['--replay', replay_path] if replay_path else [])
    root = os.path.dirname(os.path.dirname(os.path.abspath(__file__)))
    p = subprocess.run(cmd, cwd=root, capture_output=True, text=True, timeout=3000)
    for line in reversed(p.stdout.splitlines()):
        if line.startswith('CONC_EXTRA_RESULT '):
            return json.loads(line[len('CONC_EXTRA_RESULT '):])
    return {'violations': [], 'stats': {}, 'error': 'no result: %s %s' % (p.stdout[-500:], p.stderr[-1500:])}


if __name__ == '__main__':
    sys.exit(main(sys.argv))
