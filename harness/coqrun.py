"""Evaluate the Coq model on generated cases (vm_compute inside coqc) and report disagreements."""
import os
import re
import subprocess
import tempfile

from harness import ops

COQDIR = os.path.join(os.path.dirname(os.path.dirname(os.path.abspath(__file__))), 'coq')


def history_term(case):
    items = []
    rcmap = {}
    for op, (s, c, g), dmp in case:
        items.append('(%s, (%s, %s, %s), %s)' % (ops.op_coq(op, rcmap), ops.z(s), ops.z(c), ops.z(g),
                                                 ops.dump_coq(dmp)))
        rcmap = ops.rc_map(dmp)
    return ops.lst(items)


def write_cases(path, cases, cfg=(0, 0)):
    with open(path, 'w') as f:
        f.write('From PV Require Import Model.Handlers.\n')
        f.write('Definition cf := mkCfg %d %d.\n' % cfg)
        f.write('Definition cases : list (list (req * (Z * Z * Z) * list (list (list Z)))) := [\n')
        f.write(';\n'.join(history_term(c) for c in cases))
        f.write('].\n')
        f.write('Definition results := map (fun h => check_history cf db0 0 h) cases.\n')
        f.write('Eval vm_compute in results.\n')


def run_coq(path, timeout=600):
    p = subprocess.run(['coqc', '-Q', COQDIR, 'PV', path], capture_output=True, text=True, timeout=timeout,
                       cwd=os.path.dirname(path))
    if p.returncode != 0:
        raise RuntimeError('coqc failed on %s:\n%s\n%s' % (path, p.stdout[-2000:], p.stderr[-4000:]))
    out = p.stdout
    m = re.search(r'=\s*\[(.*?)\]\s*:\s*list Z', out, re.S)
    if not m:
        raise RuntimeError('cannot parse coqc output: %s' % out[-2000:])
    body = m.group(1).strip()
    if not body:
        return []
    vals = [int(x.strip().replace('%Z', '').replace('(', '').replace(')', ''))
            for x in body.split(';')]
    return vals


def check_cases(cases, workdir=None, shard=40, cfg=(0, 0)):
    """-> list of (case_index, first_failing_step) for disagreeing cases.  Shards are evaluated by parallel coqc runs."""
    from concurrent.futures import ThreadPoolExecutor
    workdir = workdir or tempfile.mkdtemp(prefix='pvcases')
    os.makedirs(workdir, exist_ok=True)
    bad = []
    paths = {}
    for k in range(0, len(cases), shard):
        paths[k] = os.path.join(workdir, 'cases_%d.v' % k)
        write_cases(paths[k], cases[k:k + shard], cfg)
    with ThreadPoolExecutor(max_workers=int(os.environ.get('VERIF_JOBS', '8'))) as ex:
        results = dict(zip(paths, ex.map(lambda kk: run_coq(paths[kk]), list(paths))))
    for k in range(0, len(cases), shard):
        part = cases[k:k + shard]
        path = paths[k]
        res = results[k]
        assert len(res) == len(part), (len(res), len(part))
        for i, r in enumerate(res):
            if r != -1:
                bad.append((k + i, r))
        for ext in ('.v', '.vo', '.vok', '.vos', '.glob'):
            try:
                os.remove(path[:-2] + ext)
            except OSError:
                pass
        try:
            os.remove(os.path.join(workdir, '.cases_%d.aux' % k))
        except OSError:
            pass
    return bad


def debug_case(case, upto, cfg=(0, 0), workdir='/tmp'):
    """Print the model's response and dump after step `upto` of a case."""
    path = os.path.join(workdir, 'debug_case.v')
    rcmap = {}
    terms = []
    for op, obs, dmp in case[:upto + 1]:
        terms.append(ops.op_coq(op, rcmap))
        rcmap = ops.rc_map(dmp)
    with open(path, 'w') as f:
        f.write('From PV Require Import Model.Handlers.\n')
        f.write('Definition cf := mkCfg %d %d.\n' % cfg)
        f.write('Definition pre := run cf db0 %s.\n' % ops.lst(terms[:-1]))
        f.write('Eval vm_compute in (let x := step cf pre %s in (snd x, dump (fst x))).\n' % terms[-1])
    p = subprocess.run(['coqc', '-Q', COQDIR, 'PV', path], capture_output=True, text=True, cwd=workdir)
    return p.stdout + p.stderr


def check_sched_cases(cases, cfg=(0, 0), workdir=None, shard=200):
    """cases: list of (setup_ops, request_ops, schedule, statuses, dump). -> indices that disagree."""
    workdir = workdir or tempfile.mkdtemp(prefix='pvsched')
    os.makedirs(workdir, exist_ok=True)
    bad = []
    for k in range(0, len(cases), shard):
        part = cases[k:k + shard]
        path = os.path.join(workdir, 'sched_%d.v' % k)
        with open(path, 'w') as f:
            f.write('From PV Require Import Model.Conc.\n')
            f.write('Definition cf := mkCfg %d %d.\n' % cfg)
            f.write('Definition cases : list (list req * list req * list Z * list Z * list (list (list Z))) := [\n')
            items = []
            for setup, reqs, schedule, sts, dmp in part:
                rcmap = {}
                # resource class name -> id map of the start state: custom classes are not created by scenarios
                st = ops.lst(ops.op_coq(o, rcmap) for o in setup)
                rq = ops.lst(ops.op_coq(o, rcmap) for o in reqs)
                items.append('(%s, %s, %s, %s, %s)' % (st, rq, ops.lst(ops.z(i) for i in schedule),
                                                       ops.lst(ops.z(i) for i in sts), ops.dump_coq(dmp)))
            f.write(';\n'.join(items))
            f.write('].\n')
            f.write('Definition results := map (fun c => if sched_agrees cf c then 1 else 0) cases.\n')
            f.write('Eval vm_compute in results.\n')
        res = run_coq(path)
        for i, r in enumerate(res):
            if r != 1:
                bad.append(k + i)
        for ext in ('.v', '.vo', '.vok', '.vos', '.glob'):
            try:
                os.remove(path[:-2] + ext)
            except OSError:
                pass
    return bad


def debug_sched(case, cfg=(0, 0), workdir='/tmp'):
    setup, reqs, schedule, sts, dmp = case
    path = os.path.join(workdir, 'debug_sched.v')
    with open(path, 'w') as f:
        f.write('From PV Require Import Model.Conc.\n')
        f.write('Definition cf := mkCfg %d %d.\n' % cfg)
        f.write('Eval vm_compute in (let x := sched_result cf %s %s %s in (fst x, core_dump (snd x))).\n' % (
            ops.lst(ops.op_coq(o, {}) for o in setup), ops.lst(ops.op_coq(o, {}) for o in reqs),
            ops.lst(ops.z(i) for i in schedule)))
    p = subprocess.run(['coqc', '-Q', COQDIR, 'PV', path], capture_output=True, text=True, cwd=workdir)
    return p.stdout + p.stderr
