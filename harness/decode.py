"""Tie of Model/Decode.v (JSON body -> parsed request of the model) and of its schema_of_* tables to the code.

(1) decode: for every generated abstract operation that has a body, `ops.op_http` builds the JSON document that is sent
    to the real service in all history streams, and `ops.op_coq` prints the request term the model is run on.  Here the
    document is handed to the Coq decoder (tokenizers = finite lookup tables inverting the harness's naming) and the
    result must be exactly that term:   to_req_* ... (body) = Some (op_coq op).  So the requests the sequential theorems
    talk about are the decodings of the bodies the service received.
(2) schema choice: which schema object a handler passes to util.extract_json at each of the 40 minor versions is LEARNT
    from the running code (a spy around extract_json, one real request per route and version) and must be the constant
    that Model/Decode.v's schema_of_* names for that version (checked by `reflexivity` in a generated Coq file).

    PYTHONPATH=/repo:/verif PYTHONHASHSEED=0 /venv/bin/python -m harness.decode SEED N_HIST N_OPS
"""
import json
import os
import random
import re
import subprocess
import sys

from harness import gen
from harness import hist
from harness import impl
from harness import ops
from harness import schemas as schemas_mod

ROOT = os.path.dirname(os.path.dirname(os.path.abspath(__file__)))
COQDIR = os.path.join(ROOT, 'coq')
WORK = os.path.join(ROOT, 'work', 'decode')

HEADER = '''From Coq Require Import ZArith List Bool.
From PV Require Import Model.Parse Model.Json Gen.GenSchemas Model.Handlers Model.Decode Spec.Fields.
Import ListNotations.
Open Scope Z_scope.
Definition lk (tbl : list (str * Z)) (s : str) : Z :=
  match find (fun p => str_eqb (fst p) s) tbl with Some p => snd p | None => (-2) end.
Definition same (a : option req) (b : req) : bool := match a with Some r => req_eqb r b | None => false end.
'''


def table(pairs):
    return '[' + '; '.join('(%s, %s)' % (schemas_mod.cstr(s), ops.z(t)) for s, t in pairs) + ']'


def static_tables():
    uu = []
    for n in range(0, 16):
        uu.append((ops.uuid_of(n, ops.K_RP), n))
        uu.append((ops.uuid_of(n, ops.K_CONS), n))
        uu.append((ops.uuid_of(n, ops.K_AGG), n))
        for k in range(4):
            uu.append((ops.spell(1000 + n * 10 + k), 1000 + n * 10 + k))
    names = [(ops.rp_name(n), n) for n in range(0, 16)]
    proj = [(ops.proj_name(n), n) for n in range(0, 6)]
    user = [(ops.user_name(n), n) for n in range(0, 6)]
    ctype = [(ops.ctype_name(n), n) for n in range(0, 6)]
    traits = []
    for t in gen.TRAITS + [100001, 100002, 100003, 100004, 5, 2]:
        traits.append((ops.trait_name_or_unknown(t), t))
    return uu, names, proj, user, ctype, traits


def rc_tables(rcmap):
    """class NAME -> id in the state the request is issued in (inventories, allocations) and NAME -> name token"""
    ids, toks = [], []
    for i, n in enumerate(ops.STD_RC):
        ids.append((n, i))
        toks.append((n, i))
    for t in range(1000, 1006):
        ops._RCMAP = rcmap or {}
        ids.append((ops.rc_name(t), ops.rcid(t)))
        toks.append((ops.rc_name(t), t))
    return ids, toks


def case_term(op, rcmap):
    """-> Coq boolean term, or None when the operation has no body (or is outside the decoders)"""
    k = op[0]
    m, path, body, ver = ops.op_http(op)
    if body is None:
        return None
    v = int(ver.split('.')[1])
    j = '(%s)' % schemas_mod.cjson(body)
    want = ops.op_coq(op, rcmap)
    if k == 'inv_set':
        return 'same (to_req_inv_set (lk RCID) %d %d %s) %s' % (v, op[2], j, want)
    if k == 'inv_post':
        return 'same (to_req_inv_post (lk RCID) %d %d %s) %s' % (v, op[2], j, want)
    if k == 'inv_put':
        ops._RCMAP = rcmap or {}
        return 'same (to_req_inv_put %d %d %s %s) %s' % (v, op[2], ops.z(ops.rcid(op[4]['rc'])), j, want)
    if k == 'traits_set':
        if len(set(op[4])) != len(op[4]):
            return None
        return 'same (to_req_traits_set (lk TRAITS) %d %d %s) %s' % (v, op[2], j, want)
    if k == 'aggs_set':
        return 'same (to_req_aggs_set (lk UU) %d %d %s %s) %s' % (v, op[2], ops.z(op[3]), j, want)
    if k == 'alloc_put':
        return 'same (to_req_alloc_put (lk UU) (lk RCID) (lk PROJ) (lk USER) (lk CTYPE) %d %d %s) %s' % (v, op[2]['uuid'], j, want)
    if k == 'alloc_post':
        return 'same (to_req_alloc_post (lk UU) (lk UU) (lk RCID) (lk PROJ) (lk USER) (lk CTYPE) %d %s) %s' % (v, j, want)
    if k == 'reshape':
        return 'same (to_req_reshape (lk UU) (lk UU) (lk RCID) (lk PROJ) (lk USER) (lk CTYPE) %d %s) %s' % (v, j, want)
    if k == 'rp_create':
        return 'same (to_req_rp_create (lk UU) (lk NAMES) %d %s) %s' % (v, j, want)
    if k == 'rp_update':
        return 'same (to_req_rp_update (lk UU) (lk NAMES) %d %d %s) %s' % (v, op[2], j, want)
    if k == 'rc_create':
        return 'same (to_req_rc_create (lk RCTOK) %d %s) %s' % (v, j, want)
    if k == 'rc_rename':
        return 'same (to_req_rc_rename (lk RCTOK) %d %s %s) %s' % (v, ops.z(op[2]), j, want)
    return None


def run_coq_flags(path, n, timeout=1500):
    p = subprocess.run(['coqc', '-Q', COQDIR, 'PV', path], capture_output=True, text=True, timeout=timeout,
                       cwd=os.path.dirname(path))
    if p.returncode != 0:
        raise RuntimeError('coqc failed on %s:\n%s\n%s' % (path, p.stdout[-2000:], p.stderr[-4000:]))
    m = re.search(r'=\s*\[(.*?)\]\s*:\s*list Z', p.stdout, re.S)
    if not m:
        raise RuntimeError('cannot parse coqc output: %s' % p.stdout[-2000:])
    vals = [int(x.strip().replace('%Z', '')) for x in m.group(1).split(';') if x.strip()]
    assert len(vals) == n, (len(vals), n)
    return vals


def decode_stream(seed, n_hist, n_ops, tag):
    """-> (n cases, [disagreeing (op, body)], by-kind counts)"""
    os.makedirs(WORK, exist_ok=True)
    uu, names, proj, user, ctype, traits = static_tables()
    groups = []          # (rcmap-specific tables, [(op, term)])
    kinds = {}
    for i in range(n_hist):
        rng = random.Random(seed * 1000003 + i)
        box = {'rcmap': {}, 'cur': None}

        def on_step(op, r, obs, before, after, box=box):
            rcmap = ops.rc_map(before)
            t = case_term(op, rcmap)
            if t is not None:
                key = json.dumps(sorted(rcmap.items()))
                if box['cur'] is None or box['cur'][0] != key:
                    box['cur'] = (key, rcmap, [])
                    groups.append(box['cur'])
                box['cur'][2].append((op, t))
                kinds[op[0]] = kinds.get(op[0], 0) + 1
        hist.run_history(rng, n_ops, on_step, profile=sorted(gen.PROFILES)[i % len(gen.PROFILES)], directed=(i % 3 == 2))
    path = os.path.join(WORK, 'dec_%s.v' % tag)
    flat = []
    with open(path, 'w') as f:
        f.write(HEADER)
        f.write('Definition UU := %s.\nDefinition NAMES := %s.\nDefinition PROJ := %s.\nDefinition USER := %s.\n'
                'Definition CTYPE := %s.\nDefinition TRAITS := %s.\n' % tuple(table(t) for t in (uu, names, proj, user, ctype, traits)))
        for gi, (_key, rcmap, cases) in enumerate(groups):
            ids, toks = rc_tables(rcmap)
            f.write('Module G%d.\nDefinition RCID := %s.\nDefinition RCTOK := %s.\n' % (gi, table(ids), table(toks)))
            for ci, (op, term) in enumerate(cases):
                f.write('Definition f%d : bool := %s.\n' % (ci, term))
                flat.append(('G%d.f%d' % (gi, ci), op))
            f.write('End G%d.\n' % gi)
        f.write('Definition flags : list Z := [%s].\nEval vm_compute in flags.\n'
                % '; '.join('(if %s then 1 else 0)' % n for n, _op in flat))
    vals = run_coq_flags(path, len(flat)) if flat else []
    bad = [{'op': json.loads(json.dumps(op)), 'body': ops.op_http(op)[2]} for (n, op), v in zip(flat, vals) if v != 1]
    if not bad:
        for ext in ('.v', '.vo', '.vok', '.vos', '.glob'):
            try:
                os.remove(path[:-2] + ext)
            except OSError:
                pass
    return len(flat), bad, kinds


# ------------------------------------------------------------------ schema choice
ROUTE_KINDS = [
    # (Coq function, first version, method, path, body of a request that reaches extract_json)
    ('schema_of_put_alloc', 0, 'PUT', '/allocations/%s' % ops.uuid_of(3, ops.K_CONS), {'allocations': []}),
    ('schema_of_post_alloc', 13, 'POST', '/allocations', {}),
    ('schema_of_reshape', 30, 'POST', '/reshaper', {'inventories': {}, 'allocations': {}}),
    ('schema_of_aggs', 1, 'PUT', '/resource_providers/%s/aggregates' % ops.uuid_of(1), []),
    ('schema_of_rp_create', 0, 'POST', '/resource_providers', {'name': 'x'}),
    ('schema_of_rp_update', 0, 'PUT', '/resource_providers/%s' % ops.uuid_of(1), {'name': 'x'}),
]
QUERY_KINDS = [
    # (Coq function of Spec/Fields.v, first version, path with a query that reaches validate_query_params)
    ('schema_of_get_candidates', 10, '/allocation_candidates?resources=VCPU:1'),
    ('schema_of_get_rps', 0, '/resource_providers'),
    ('schema_of_get_usages', 9, '/usages?project_id=p'),
]
FIXED_SCHEMAS = [
    # routes that use one schema at every version: (Coq constant the theorems name, method, path, body, versions probed)
    ('S_inventory__PUT_INVENTORY_SCHEMA', 'PUT', '/resource_providers/%s/inventories' % ops.uuid_of(1), {}, (0, 7, 19, 26, 39)),
    ('S_inventory__POST_INVENTORY_SCHEMA', 'POST', '/resource_providers/%s/inventories' % ops.uuid_of(1), {}, (0, 7, 19, 26, 39)),
    ('S_inventory__BASE_INVENTORY_SCHEMA', 'PUT', '/resource_providers/%s/inventories/VCPU' % ops.uuid_of(1), {}, (0, 7, 19, 26, 39)),
    ('S_trait__SET_TRAITS_FOR_RP_SCHEMA', 'PUT', '/resource_providers/%s/traits' % ops.uuid_of(1), {}, (6, 19, 39)),
    ('S_resource_class__POST_RC_SCHEMA_V1_2', 'POST', '/resource_classes', {}, (2, 7, 39)),
    ('S_resource_class__PUT_RC_SCHEMA_V1_2', 'PUT', '/resource_classes/CUSTOM_N0', {'name': 'CUSTOM_N1'}, (2, 6)),
]


def schema_choice(tag):
    """-> (n facts checked, error text or None)"""
    from placement import util as putil
    os.makedirs(WORK, exist_ok=True)
    by_id = {id(s): cname for _d, cname, s in schemas_mod.load_schemas()}
    app = impl.App()
    hist.observe(app, ('rp_create', 39, 1, 1, None))
    seen = []
    orig = putil.extract_json

    def spy(body, schema):
        seen.append(schema)
        return orig(body, schema)
    orig_q = putil.validate_query_params

    def spy_q(req, schema):
        seen.append(schema)
        return orig_q(req, schema)
    putil.extract_json = spy
    putil.validate_query_params = spy_q
    facts = []
    problems = []
    try:
        for fn, v0, path in QUERY_KINDS:
            for v in range(v0, 40):
                del seen[:]
                app.request('GET', path, version='1.%d' % v, headers={'x-roles': 'admin,service'})
                cname = by_id.get(id(seen[0])) if seen else None
                if cname is None:
                    problems.append('GET %s at 1.%d does not validate its query with a schema constant' % (path, v))
                    continue
                facts.append('%s %d = %s' % (fn, v, cname))
        for fn, v0, method, path, body in ROUTE_KINDS:
            for v in range(v0, 40):
                del seen[:]
                app.request(method, path, body=body, version='1.%d' % v, headers={'x-roles': 'admin,service'})
                if not seen:
                    problems.append('%s %s at 1.%d does not reach extract_json' % (method, path, v))
                    continue
                cname = by_id.get(id(seen[0]))
                if cname is None:
                    problems.append('%s %s at 1.%d validates with a schema object that is not a module constant' % (method, path, v))
                    continue
                facts.append('%s %d = %s' % (fn, v, cname))
        for cname, method, path, body, versions in FIXED_SCHEMAS:
            for v in versions:          # (PUT /resource_classes/{name} has no body from 1.7)
                del seen[:]
                app.request(method, path, body=body, version='1.%d' % v, headers={'x-roles': 'admin,service'})
                got = by_id.get(id(seen[0])) if seen else None
                if got != cname:
                    problems.append('%s %s at 1.%d validates with %s, the theorems are about %s' % (method, path, v, got, cname))
    finally:
        putil.extract_json = orig
        putil.validate_query_params = orig_q
        app.close()
    path = os.path.join(WORK, 'schema_choice_%s.v' % tag)
    with open(path, 'w') as f:
        f.write(HEADER)
        for i, fact in enumerate(facts):
            f.write('Example sc%d : %s. Proof. reflexivity. Qed.\n' % (i, fact))
    p = subprocess.run(['coqc', '-Q', COQDIR, 'PV', path], capture_output=True, text=True, timeout=900, cwd=WORK)
    if p.returncode != 0:
        m = re.search(r'line (\d+)', p.stderr)
        which = ''
        if m:
            lines = open(path).read().splitlines()
            which = lines[int(m.group(1)) - 1][:200]
        problems.append('Model/Decode.v names another schema than the handler uses: %s (%s)' % (which, p.stderr[-300:]))
    else:
        for ext in ('.v', '.vo', '.vok', '.vos', '.glob'):
            try:
                os.remove(path[:-2] + ext)
            except OSError:
                pass
    return len(facts), ('; '.join(problems[:5]) if problems else None)


def ratio_edges(tag):
    """the handler's own test on allocation_ratio (make_inventory_object: NaN, infinities, anything beyond
    +-SQL_SP_FLOAT_MAX -> 400) against Decode.num_ratio / the regenerated schema: one POST of an inventory with
    reserved == total (capacity 0 whatever the sign of the ratio, accepted from 1.26) per edge value.
    -> (n cases, [problems])"""
    import math
    from placement.db import constants as db_const
    M = db_const.SQL_SP_FLOAT_MAX
    IM = int(M)
    edges = [float('nan'), float('inf'), float('-inf'), 1e308, -1e308, M, -M, math.nextafter(M, math.inf),
             math.nextafter(-M, -math.inf), math.nextafter(M, 0), math.nextafter(-M, 0), IM, -IM, IM + 1, -IM - 1, IM - 1, 1 - IM,
             10 ** 400, -10 ** 400, 10 ** 40, -10 ** 40, 0, 0.0, -0.0, 1, -1, 1.5, -1.5, 16, 1e-300, -1e-300, 5e-324,
             2 ** 127, -2 ** 127, 2 ** 128, -2 ** 128, float(2 ** 128), -float(2 ** 128), 3.4e38, -3.4e38, 3.5e38, -3.5e38]
    os.makedirs(WORK, exist_ok=True)
    app = impl.App()
    hist.observe(app, ('rp_create', 39, 1, 1, None))
    url = '/resource_providers/%s/inventories' % ops.uuid_of(1)
    got, terms = [], []
    problems = []
    try:
        for r in edges:
            doc = {'resource_class': 'VCPU', 'total': 4, 'reserved': 4, 'allocation_ratio': r}
            resp = app.request('POST', url, body=doc, version='1.39', headers={'x-roles': 'admin,service'})
            st = resp.status
            if st >= 500:
                problems.append('allocation_ratio %r answered %d' % (r, st))
            got.append(1 if st == 201 else 0)
            if st == 201:
                app.request('DELETE', url + '/VCPU', version='1.39', headers={'x-roles': 'admin,service'})
            j = schemas_mod.cjson(doc)
            terms.append('(if validate S_inventory__POST_INVENTORY_SCHEMA (%s) then '
                         'match dec_inv_post (fun _ => 0) (%s) with Some _ => 1 | None => 0 end else 0)' % (j, j))
    finally:
        app.close()
    path = os.path.join(WORK, 'ratio_edges_%s.v' % tag)
    with open(path, 'w') as f:
        f.write(HEADER)
        f.write('Eval vm_compute in [%s].\n' % ';\n  '.join(terms))
    flags = run_coq_flags(path, len(edges), timeout=600)
    for r, a, b in zip(edges, got, flags):
        if a != b:
            problems.append('allocation_ratio %r: the service %s it, Decode.dec_inv_post %s it'
                            % (r, 'accepts' if a else 'rejects', 'accepts' if b else 'rejects'))
    if not problems:
        for ext in ('.v', '.vo', '.vok', '.vos', '.glob'):
            try:
                os.remove(path[:-2] + ext)
            except OSError:
                pass
    return len(edges), problems


if __name__ == '__main__':
    n, bad, kinds = decode_stream(int(sys.argv[1]), int(sys.argv[2]), int(sys.argv[3]), 'cli')
    print(kinds)
    for b in bad[:10]:
        print('DISAGREE', json.dumps(b)[:400])
    print('%d decoded bodies, %d disagreements' % (n, len(bad)))
    nf, err = schema_choice('cli')
    print('%d schema-choice facts, problems: %s' % (nf, err))
    nr, rprob = ratio_edges('cli')
    print('%d ratio edges, problems: %s' % (nr, rprob))
    sys.exit(1 if bad or err or rprob else 0)
