"""Tie of Model/DecodeQ.v (query string of GET /resource_providers -> parsed filters of the listing model) to the code:
the REAL handler placement.handlers.resource_provider.list_resource_providers is called on generated query strings
(repeated parameters, junk keys, other uuid spellings, non-ASCII digits, every version gate) with
rp_obj.get_all_by_filters replaced by a function that captures the `filters` dict the handler built; the captured dict
(or the 400) must be what decode_listing computes under vm_compute.  (Written by the proof agent of Proofs/C13q.v as its
own differential test; adopted as a stream of the C13 check.)

    run(seed, n) -> (n cases, n disagreements, first disagreements as text, stats)
"""
import os
import re
import subprocess
import tempfile
import random, sys, urllib.parse, webob
from placement import util, microversion
from placement.handlers import resource_provider as h
from placement.objects import resource_provider as rp_obj
import microversion_parse

cap = {}
def fake(ctx, filters):
    cap['f'] = filters; return []
class Ctx:
    def can(self, *a, **k): return True

def call_handler(kv, minor):
    cap.clear()
    qs = urllib.parse.urlencode(kv)
    r = webob.Request.blank('/resource_providers?' + qs, headers={'accept': 'application/json'})
    r.environ['placement.context'] = Ctx()
    ver = microversion_parse.Version(1, minor)
    ver.max_version = microversion_parse.Version(1, 39); ver.min_version = microversion_parse.Version(1, 0)
    r.environ[microversion.MICROVERSION_ENVIRON] = ver
    assert list(r.GET.items()) == kv, (list(r.GET.items()), kv)
    resp = r.get_response(h.list_resource_providers)
    if resp.status_int == 400: return 'P400'
    assert resp.status_int == 200, resp.status_int
    return cap['f']

def RP(n): return '00000000-0000-0000-0000-abcdef00000%d' % n
def AG(n): return '00000000-0000-0002-0000-abcdef00000%d' % n
T_RP = {RP(2): 1, RP(3): 2, RP(4): 3}
T_AG = {AG(2): 1, AG(3): 2, AG(4): 3, AG(5): 4}
T_TR = {'HW_CPU_X86_AVX': 178, 'STORAGE_DISK_SSD': 376, 'CUSTOM_T1': 100001, 'MISC_SHARES_VIA_AGGREGATE': 372}
T_RC = {'VCPU': 0, 'MEMORY_MB': 1, 'DISK_GB': 2}
T_NM = {'rp1': 1, 'rp2': 2, 'rp3': 3}

def z(n): return '(%d)' % n if n < 0 else '%d' % n
def lst(items): return '[' + '; '.join(items) + ']'
def cstr(s): return lst(str(ord(c)) for c in s)
def tok(t, s, d=-2): return t.get(s, d)

def expected(f):
    if f == 'P400': return 'P400'
    if 'name' in f:
        name = 'NameEmpty' if f['name'] == '' else '(NameIs %s)' % z(tok(T_NM, f['name']))
    else: name = 'NameAbsent'
    def o(k):
        x = f.get(k)
        return '(Some %s)' % z(tok(T_RP, x)) if x else 'None'
    mo = lst(lst(z(tok(T_AG, a)) for a in sorted(s)) for s in f.get('member_of', []))
    fa = lst(z(tok(T_AG, a)) for a in sorted(f.get('forbidden_aggs', [])))
    rq = lst(lst(z(tok(T_TR, a)) for a in sorted(s)) for s in f.get('required_traits', []))
    fb = lst(z(tok(T_TR, a)) for a in sorted(f.get('forbidden_traits', [])))
    rs = lst('(%s, %s)' % (z(tok(T_RC, k, -1)), z(a)) for k, a in f.get('resources', {}).items())
    return '(POk (mkRpFilters %s %s %s %s %s %s %s %s))' % (name, o('uuid'), o('in_tree'), mo, fa, rq, fb, rs)

def gen_value(rng, key):
    r = rng.random()
    if r < 0.06: return rng.choice(['', ' ', 'x', ',', 'in:', '!', '!in:', ':', 'a:b:c', ' ', 'in:,'])
    if key in ('uuid', 'in_tree'):
        u = rng.choice([RP(2), RP(3), RP(4), RP(9)])
        return rng.choice([u, u, u, u.upper(), '{' + u + '}', 'urn:uuid:' + u, u.replace('-', ''), u[:-1], ' ' + u, u + ' '])
    if key == 'name': return rng.choice(['rp1', 'rp2', 'rp3', 'rp9', '', 'rp1 '])
    if key == 'member_of':
        k = rng.choice([1, 1, 2, 3])
        us = [rng.choice([AG(2), AG(3), AG(4), AG(5), AG(9), AG(2).upper(), 'zz']) if rng.random() < 0.95 else '' for _ in range(k)]
        pre = rng.choice(['', '', 'in:', 'in:', '!', '!in:', 'in: ', '!!'])
        return pre + ','.join(us)
    if key == 'required':
        k = rng.choice([1, 1, 2, 3])
        ts = [rng.choice(['', '', '', '!', '!', ' ', ' !', '!!']) + rng.choice(list(T_TR) + ['CUSTOM_X', '']) + rng.choice(['', '', ' ']) for _ in range(k)]
        pre = rng.choice(['', '', '', 'in:', 'in:', '!in:', ' in:'])
        return pre + ','.join(ts)
    if key == 'resources':
        k = rng.choice([1, 1, 2, 3])
        ps = [rng.choice(['VCPU', 'MEMORY_MB', 'DISK_GB', 'CUSTOM_N7', '', ' VCPU']) + rng.choice([':', ':', ':', ':', '', '::']) +
              rng.choice(['1', '2', '512', '0', '-1', ' 3 ', '+4', '1_0', '2147483647', '2147483648', 'x', '', '1.0', '٣']) for _ in range(k)]
        return ','.join(ps)
    return rng.choice(['1', 'x', ''])

def gen_case(rng):
    v = rng.choice([0, 2, 3, 4, 13, 14, 17, 18, 21, 22, 23, 24, 31, 32, 38, 39, 39, 39])
    kv = []
    keys = ['name', 'uuid', 'in_tree', 'member_of', 'required', 'resources']
    for _ in range(rng.choice([0, 1, 1, 2, 2, 3, 4, 6])):
        k = rng.choice(keys) if rng.random() < 0.97 else rng.choice(['limit', '', 'Name', 'required1', 'name '])
        if rng.random() < 0.5:
            # bias towards parameters available at v
            avail = ['name', 'uuid'] + (['member_of'] if v >= 3 else []) + (['resources'] if v >= 4 else []) + \
                    (['in_tree'] if v >= 14 else []) + (['required'] if v >= 18 else [])
            k = rng.choice(avail)
        kv.append((k, gen_value(rng, k)))
    return v, kv

def main(seed, n, out):
    rng = random.Random(seed)
    orig = rp_obj.get_all_by_filters
    rp_obj.get_all_by_filters = fake
    try:
        return _main(rng, n, out)
    finally:
        rp_obj.get_all_by_filters = orig


def _main(rng, n, out):
    cases = []
    stats = {'P400': 0, 'POk': 0}
    for _ in range(n):
        v, kv = gen_case(rng)
        e = expected(call_handler(kv, v))
        stats['P400' if e == 'P400' else 'POk'] += 1
        cases.append('(%d, %s, %s)' % (v, lst('(%s, %s)' % (cstr(k), cstr(x)) for k, x in kv), e))
    with open(out, 'w') as f:
        f.write('''From Coq Require Import ZArith List Bool.
From PV Require Import Model.Candidates Model.Parse Model.Json Model.DecodeQ.
Import ListNotations.
Open Scope Z_scope.
Definition T_RP := %s.
Definition T_AG := %s.
Definition T_TR := %s.
Definition T_RC := %s.
Definition T_NM := %s.
Definition dec := decode_listing (tok_table T_RP (-2)) (tok_table T_AG (-2)) (tok_table T_TR (-2)) (tok_table T_RC (-1)) (tok_table T_NM (-2)).
Definition oz_eqb (a b : option Z) := match a, b with Some x, Some y => x =? y | None, None => true | _, _ => false end.
Definition nm_eqb (a b : name_filter) := match a, b with NameAbsent, NameAbsent | NameEmpty, NameEmpty => true | NameIs x, NameIs y => x =? y | _, _ => false end.
Definition zl_eqb := list_eqb Z.eqb.
Definition f_eqb (a b : rp_filters) : bool :=
  nm_eqb (f_name a) (f_name b) && oz_eqb (f_uuid a) (f_uuid b) && oz_eqb (f_in_tree a) (f_in_tree b)
  && list_eqb zl_eqb (f_member_of a) (f_member_of b) && zl_eqb (f_forbidden_aggs a) (f_forbidden_aggs b)
  && list_eqb zl_eqb (f_required a) (f_required b) && zl_eqb (f_forbidden a) (f_forbidden b)
  && list_eqb (fun x y => (fst x =? fst y) && (snd x =? snd y)) (f_resources a) (f_resources b).
Definition cases : list (Z * qs * PRes rp_filters) := %s.
Definition bad := filter (fun c => let '(v, kv, e) := c in negb (pres_eqb f_eqb (dec v kv) e)) cases.
Eval vm_compute in (length cases, length bad).
Eval vm_compute in firstn 3 bad.
''' % tuple([lst('(%s, %s)' % (cstr(k), z(t)) for k, t in T.items()) for T in (T_RP, T_AG, T_TR, T_RC, T_NM)] + [lst(cases)]))
    return stats


def run(seed, n):
    root = os.path.dirname(os.path.dirname(os.path.abspath(__file__)))
    workdir = tempfile.mkdtemp(prefix='pvdecq', dir='/dev/shm' if os.path.isdir('/dev/shm') else None)
    path = os.path.join(workdir, 'decq.v')
    stats = main(seed, n, path)
    p = subprocess.run(['coqc', '-Q', os.path.join(root, 'coq'), 'PV', path], capture_output=True, text=True, timeout=1500, cwd=workdir)
    import shutil
    if p.returncode != 0:
        shutil.rmtree(workdir, ignore_errors=True)
        raise RuntimeError('coqc failed: %s' % p.stderr[-1500:])
    m = re.search(r'=\s*\((\d+)%nat,\s*(\d+)%nat\)', p.stdout)
    shutil.rmtree(workdir, ignore_errors=True)
    if not m:
        raise RuntimeError('cannot parse coqc output: %s' % p.stdout[-800:])
    n_cases, n_bad = int(m.group(1)), int(m.group(2))
    first = p.stdout[p.stdout.find(': nat * nat') + 11:][:1500] if n_bad else ''
    return n_cases, n_bad, first, stats


if __name__ == '__main__':
    print(run(int(sys.argv[1]), int(sys.argv[2])))
