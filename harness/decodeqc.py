"""Tie of Model/DecodeQC.v (query string of GET /allocation_candidates -> parsed query of the candidate model) to the
code: the REAL handler placement.handlers.allocation_candidate.list_allocation_candidates is called on generated query
strings (repeated parameters, junk keys, suffix edge cases - resources1, resources01, resources_A, 64/65-character
suffixes, a trailing newline in the key -, first-vs-last value of limit / group_policy, every version gate) with
AllocationCandidates.get_by_requests replaced by a function that captures the `groups` dict and the `rqparams` the
handler built (lib.RequestGroup.dict_from_request + lib.RequestWideParams.from_request + the group_policy check).
The captured objects (or the 400) must be what decode_candidates_s computes under vm_compute (string level), and their
token rendering what decode_candidates computes (token level).

    run(seed, n) -> (n cases, n disagreements, first disagreements as text, stats)
"""
import os
import re
import subprocess
import sys
import tempfile
import random
import urllib.parse

import webob
import microversion_parse
from placement import microversion
from placement.handlers import allocation_candidate as h


class Captured(Exception):
    pass


cap = {}


def fake(context, groups, rqparams, nested_aware=False):
    cap['groups'] = groups
    cap['rq'] = rqparams
    raise Captured()


class Ctx:
    def can(self, *a, **k):
        return True


def call_handler(kv, minor):
    cap.clear()
    qs = urllib.parse.urlencode(kv)
    r = webob.Request.blank('/allocation_candidates?' + qs, headers={'accept': 'application/json'})
    r.environ['placement.context'] = Ctx()
    ver = microversion_parse.Version(1, minor)
    ver.max_version = microversion_parse.Version(1, 39)
    ver.min_version = microversion_parse.Version(1, 0)
    r.environ[microversion.MICROVERSION_ENVIRON] = ver
    assert list(r.GET.items()) == kv, (list(r.GET.items()), kv)
    try:
        resp = r.get_response(h.list_allocation_candidates)
    except Captured:
        return cap['groups'], cap['rq']
    assert resp.status_int == 400, (resp.status_int, kv, minor)
    return 'P400'


def RP(n): return '00000000-0000-0000-0000-abcdef00000%d' % n
def AG(n): return '00000000-0000-0002-0000-abcdef00000%d' % n
T_RP = {RP(2): 1, RP(3): 2, RP(4): 3}
T_AG = {AG(2): 1, AG(3): 2, AG(4): 3, AG(5): 4}
T_TR = {'HW_CPU_X86_AVX': 178, 'STORAGE_DISK_SSD': 376, 'CUSTOM_T1': 100001, 'MISC_SHARES_VIA_AGGREGATE': 372}
T_RC = {'VCPU': 0, 'MEMORY_MB': 1, 'DISK_GB': 2}
LONG64 = 'x' * 64
LONG65 = 'y' * 65
T_SF = {'': 0, '1': 1, '2': 2, '10': 10, '_A': 101, 'G-1': 102, LONG64: 103, 'b_2': 104}


def z(n): return '(%d)' % n if n < 0 else '%d' % n
def lst(items): return '[' + '; '.join(items) + ']'
def cstr(s): return lst(str(ord(c)) for c in s)
def tok(t, s, d=-2): return t.get(s, d)
def opt(x, f): return 'None' if x is None or x == [] else '(Some %s)' % f(x)   # rqparams.limit is [] when absent


def expected_s(res):
    """string level: Coq term of type PRes squery"""
    if res == 'P400':
        return 'P400'
    groups, rq = res
    gs = []
    for suf, g in groups.items():
        assert g.use_same_provider == bool(suf)
        gs.append('(mkSGroup %s %s %s %s %s %s %s)' % (
            cstr(suf),
            lst('(%s, %s)' % (cstr(k), z(a)) for k, a in g.resources.items()),
            lst(lst(cstr(t) for t in sorted(s)) for s in g.required_traits),
            lst(cstr(t) for t in sorted(g.forbidden_traits)),
            lst(lst(cstr(a) for a in sorted(s)) for s in g.member_of),
            lst(cstr(a) for a in sorted(g.forbidden_aggs)),
            opt(g.in_tree, cstr)))
    if rq.anchor_required_traits is None:
        assert rq.anchor_forbidden_traits is None
        root = 'None'
    else:
        root = '(Some (%s, %s))' % (lst(cstr(t) for t in sorted(rq.anchor_required_traits)),
                                    lst(cstr(t) for t in sorted(rq.anchor_forbidden_traits)))
    rwp = '(%s, %s, %s, %s)' % (opt(rq.limit, z), opt(rq.group_policy, cstr), root,
                                lst(lst(cstr(s) for s in sorted(ss)) for ss in rq.same_subtrees))
    return '(POk (mkSQuery %s %s))' % (lst(gs), rwp)


def expected_t(res):
    """token level: Coq term of type PRes query, computed from the captured objects with the code's own reading of
    group_policy (falsy = not supplied; == 'isolate' isolates)"""
    if res == 'P400':
        return 'P400'
    groups, rq = res
    gs = []
    for suf, g in groups.items():
        gs.append('(mkGroup %s %s %s %s %s %s %s)' % (
            z(tok(T_SF, suf)),
            lst('(%s, %s)' % (z(tok(T_RC, k, -1)), z(a)) for k, a in g.resources.items()),
            lst(lst(z(tok(T_TR, t)) for t in sorted(s)) for s in g.required_traits),
            lst(z(tok(T_TR, t)) for t in sorted(g.forbidden_traits)),
            lst(lst(z(tok(T_AG, a)) for a in sorted(s)) for s in g.member_of),
            lst(z(tok(T_AG, a)) for a in sorted(g.forbidden_aggs)),
            opt(g.in_tree, lambda u: z(tok(T_RP, u)))))
    pol = 'GPAbsent' if not rq.group_policy else ('GPIsolate' if rq.group_policy == 'isolate' else 'GPNone')
    return '(POk (mkQuery %s %s %s %s %s %s))' % (
        lst(gs), pol, opt(rq.limit, z),
        lst(z(tok(T_TR, t)) for t in sorted(rq.anchor_required_traits or [])),
        lst(z(tok(T_TR, t)) for t in sorted(rq.anchor_forbidden_traits or [])),
        lst(lst(z(tok(T_SF, s)) for s in sorted(ss)) for ss in rq.same_subtrees))


# ------------------------------------------------------------------ generation
NUM_SUFFIXES = ['1', '2', '10', '1', '2']
STR_SUFFIXES = ['_A', 'G-1', 'b_2', LONG64, '1', '2']
ODD_SUFFIXES = ['01', '0', LONG65, '1\n', '\n', '_A\n', ' 1', '1 ', '_A!', 'é', '-', '_', '1\n\n', '٣']
TRAITS = list(T_TR) + ['CUSTOM_X']


def gen_traits_value(rng, v, any_ok=True):
    r = rng.random()
    if r < 0.05:
        return rng.choice(['', ' ', ',', 'in:', '!', '!in:', 'in:,'])
    k = rng.choice([1, 1, 2, 3])
    if any_ok and rng.random() < (0.3 if v >= 39 else 0.06):
        return rng.choice(['in:', 'in:', ' in:', '!in:']) + ','.join(
            rng.choice(['', '', '', '!']) + rng.choice(TRAITS) for _ in range(k + 1))
    ts = []
    for _ in range(k):
        bang = '!' if rng.random() < (0.25 if v >= 22 else 0.05) else ''
        ts.append(rng.choice(['', '', '', '', ' ']) + bang + rng.choice(TRAITS + ['']*(rng.random() < 0.05)) +
                  rng.choice(['', '', '', ' ']))
    return ','.join(ts)


def gen_member_of_value(rng, v):
    if rng.random() < 0.05:
        return rng.choice(['', 'x', ',', 'in:', '!', '!in:'])
    k = rng.choice([1, 1, 1, 2, 3])
    us = [rng.choice([AG(2), AG(3), AG(4), AG(5), AG(9), AG(2).upper(), 'zz' * (rng.random() < 0.1) or AG(2)]) for _ in range(k)]
    if k == 1:
        pre = rng.choice(['', '', '', 'in:', '!' if v >= 32 or rng.random() < 0.1 else ''])
    else:
        pre = rng.choice(['in:', 'in:', 'in:', '!in:' if v >= 32 or rng.random() < 0.1 else 'in:', ''])
    return pre + ','.join(us)


def gen_resources_value(rng):
    if rng.random() < 0.04:
        return rng.choice(['', ' ', 'VCPU', 'VCPU:', ':1', 'VCPU:1:2', 'VCPU:0', 'VCPU:-1', 'VCPU:x', 'VCPU:2147483648'])
    k = rng.choice([1, 1, 2, 3])
    return ','.join('%s:%s' % (rng.choice(['VCPU', 'MEMORY_MB', 'DISK_GB', 'CUSTOM_N7']),
                               rng.choice(['1', '2', '4', '512', ' 3 ', '+4', '1_0', '2147483647', '٣']))
                    for _ in range(k))


def gen_in_tree_value(rng):
    u = rng.choice([RP(2), RP(3), RP(4), RP(9)])
    if rng.random() < 0.8:
        return u
    return rng.choice([u.upper(), '{' + u + '}', ' ' + u + ' ', u[:-1], '', 'x'])


def gen_case(rng):
    v = rng.choice([10, 15, 16, 17, 20, 21, 22, 23, 24, 25, 30, 31, 32, 33, 34, 35, 36, 36, 37, 38, 39, 39, 39])
    gates = rng.random() < 0.8          # respect the version gates most of the time
    kv = []
    # which groups
    sufs = ['']
    if rng.random() < 0.15:
        sufs = []
    if v >= 25 or not gates:
        pool = (STR_SUFFIXES if v >= 33 or (not gates and rng.random() < 0.5) else NUM_SUFFIXES)
        for _ in range(rng.choice([0, 0, 1, 1, 2, 3])):
            s = rng.choice(pool) if rng.random() < 0.9 else rng.choice(ODD_SUFFIXES)
            sufs.append(s)
    if rng.random() < 0.7:
        sufs = list(dict.fromkeys(sufs))
    resourceless = []
    for s in sufs:
        with_res = rng.random() < (0.9 if v < 36 or s == sufs[0] else 0.6)
        if with_res:
            kv.append(('resources' + s, gen_resources_value(rng)))
            if rng.random() < 0.06:
                kv.append(('resources' + s, gen_resources_value(rng)))
        else:
            resourceless.append(s)
        if (v >= 17 or not gates) and rng.random() < (0.4 if with_res else 0.7):
            for _ in range(rng.choice([1, 1, 1, 2]) if v >= 39 or rng.random() < 0.1 else 1):
                kv.append(('required' + s, gen_traits_value(rng, v)))
        if (v >= 21 or not gates) and rng.random() < (0.3 if with_res else 0.4):
            for _ in range(rng.choice([1, 1, 2]) if v >= 24 or rng.random() < 0.1 else 1):
                kv.append(('member_of' + s, gen_member_of_value(rng, v)))
        if (v >= 31 or not gates) and rng.random() < 0.2:
            kv.append(('in_tree' + s, gen_in_tree_value(rng)))
            if rng.random() < 0.1:
                kv.append(('in_tree' + s, gen_in_tree_value(rng)))
    # request-wide
    if (v >= 16 or not gates) and rng.random() < 0.25:
        for _ in range(rng.choice([1, 1, 1, 2])):
            kv.append(('limit', rng.choice(['1', '5', '10', '100', '7']) if rng.random() < 0.75 else
                       rng.choice(['0', '-1', ' 3', '+4', 'x', '', '1_0', '٣', '07'])))
    granular = [s for s in sufs if s != '']
    if (v >= 25 or not gates) and (rng.random() < (0.85 if len(granular) > 1 else 0.2)):
        for _ in range(rng.choice([1, 1, 1, 2])):
            kv.append(('group_policy', rng.choice(['none', 'isolate']) if rng.random() < 0.85 else rng.choice(['', 'bogus'])))
    if (v >= 35 or not gates) and rng.random() < 0.2:
        for _ in range(rng.choice([1] * 9 + [2])):
            kv.append(('root_required', gen_traits_value(rng, 39, any_ok=False)))
    if (v >= 36 or not gates) and (resourceless and rng.random() < 0.85 or rng.random() < 0.2):
        names = [s for s in resourceless if s != ''] if rng.random() < 0.85 else []
        for _ in range(rng.choice([1, 1, 2])):
            extra = [rng.choice(granular or ['1', '_A']) for _ in range(rng.choice([0, 1, 1, 2]))]
            if rng.random() < 0.06:
                extra.append(rng.choice(['', ' ', 'zz', ' 1 ']))
            vals = names + extra
            if not vals and rng.random() < 0.9:
                vals = [rng.choice(granular or ['1'])]
            rng.shuffle(vals)
            kv.append(('same_subtree', ','.join(rng.choice(['', '', ' ']) + x for x in vals)))
    # junk / perturbation
    if rng.random() < 0.05:
        kv.append((rng.choice(['foo', '', 'Resources', 'resources 1', 'name', 'uuid', 'required_', 'in_tree-']), rng.choice(['1', 'x', ''])))
    if rng.random() < 0.5:
        rng.shuffle(kv)
    if rng.random() < 0.04 and kv:
        del kv[rng.randrange(len(kv))]
    return v, kv


def main(seed, n, out):
    rng = random.Random(seed)
    orig = h.ac_obj.AllocationCandidates.get_by_requests
    h.ac_obj.AllocationCandidates.get_by_requests = staticmethod(fake)
    try:
        return _main(rng, n, out)
    finally:
        h.ac_obj.AllocationCandidates.get_by_requests = orig


LAST_CASES = []


def fixed_cases():
    """groups WITHOUT resources (orphans) created by each kind of key, on both sides of 1.36 (resourceless groups need
    same_subtree from there) and of the key's own introduction; run first on every run"""
    out = []
    orphan = [('required1', '!HW_CPU_X86_AVX'), ('required1', 'HW_CPU_X86_AVX'), ('required1', '!HW_CPU_X86_AVX,!STORAGE_DISK_SSD'),
              ('member_of1', AG(2)), ('member_of1', '!' + AG(2)), ('member_of1', '!in:%s,%s' % (AG(2), AG(3))), ('in_tree1', RP(2)),
              ('required_A', '!HW_CPU_X86_AVX'), ('required', '!HW_CPU_X86_AVX')]
    for v in (24, 25, 30, 31, 32, 33, 35, 36, 39):
        for k, val in orphan:
            for base in ([('resources', 'VCPU:1')], [('resources2', 'VCPU:1'), ('group_policy', 'none')],
                         [('resources', 'VCPU:1'), ('resources2', 'DISK_GB:1'), ('group_policy', 'isolate')]):
                if k == 'required' and base[0][0] == 'resources':
                    continue
                out.append((v, base + [(k, val)]))
                if v >= 36:
                    out.append((v, base + [(k, val), ('same_subtree', k[len(k.rstrip('0123456789_A')):] or '1')]))
    return out


def _main(rng, n, out):
    cases = []
    stats = {'P400': 0, 'POk': 0, 'groups>1': 0, 'newline key accepted': 0, 'repeated key': 0, 'by version': {}}
    todo = fixed_cases()
    del LAST_CASES[:]
    for i in range(n + len(todo)):
        v, kv = todo[i] if i < len(todo) else gen_case(rng)
        LAST_CASES.append((v, kv))
        res = call_handler(kv, v)
        ok = res != 'P400'
        stats['POk' if ok else 'P400'] += 1
        bv = stats['by version'].setdefault(v, [0, 0])
        bv[0 if ok else 1] += 1
        if ok and len(res[0]) > 1:
            stats['groups>1'] += 1
        if ok and any(k.endswith('\n') for k, _ in kv):
            stats['newline key accepted'] += 1
        if len(set(k for k, _ in kv)) < len(kv):
            stats['repeated key'] += 1
        cases.append('(%d, %s, %s, %s)' % (v, lst('(%s, %s)' % (cstr(k), cstr(x)) for k, x in kv),
                                          expected_s(res), expected_t(res)))
    with open(out, 'w') as f:
        f.write('''From Coq Require Import ZArith List Bool.
From PV Require Import Model.Candidates Model.Parse Model.Json Model.DecodeQ Model.DecodeQC.
Import ListNotations.
Open Scope Z_scope.
Definition T_RP := %s.
Definition T_AG := %s.
Definition T_TR := %s.
Definition T_RC := %s.
Definition T_SF := %s.
Definition dec := decode_candidates (tok_table T_RP (-2)) (tok_table T_AG (-2)) (tok_table T_TR (-2)) (tok_table T_RC (-1)) (tok_table T_SF (-2)).
Definition oz_eqb (a b : option Z) := match a, b with Some x, Some y => x =? y | None, None => true | _, _ => false end.
Definition zl_eqb := list_eqb Z.eqb.
Definition zz_eqb (x y : Z * Z) := (fst x =? fst y) && (snd x =? snd y).
Definition sz_eqb (x y : str * Z) := str_eqb (fst x) (fst y) && (snd x =? snd y).
Definition sg_eqb (a b : sgroup) : bool :=
  str_eqb (sg_suffix a) (sg_suffix b) && list_eqb sz_eqb (sg_resources a) (sg_resources b)
  && sets_eqb (sg_required a) (sg_required b) && strs_eqb (sg_forbidden a) (sg_forbidden b)
  && sets_eqb (sg_member_of a) (sg_member_of b) && strs_eqb (sg_forbidden_aggs a) (sg_forbidden_aggs b)
  && opt_eqb str_eqb (sg_in_tree a) (sg_in_tree b).
Definition sq_eqb (a b : squery) : bool := list_eqb sg_eqb (sq_groups a) (sq_groups b) && rwp_eqb (sq_rwp a) (sq_rwp b).
Definition g_eqb (a b : rgroup) : bool :=
  (g_suffix a =? g_suffix b) && list_eqb zz_eqb (g_resources a) (g_resources b)
  && list_eqb zl_eqb (g_required a) (g_required b) && zl_eqb (g_forbidden a) (g_forbidden b)
  && list_eqb zl_eqb (g_member_of a) (g_member_of b) && zl_eqb (g_forbidden_aggs a) (g_forbidden_aggs b)
  && oz_eqb (g_in_tree a) (g_in_tree b).
Definition pol_eqb (a b : gpolicy) := match a, b with GPAbsent, GPAbsent | GPNone, GPNone | GPIsolate, GPIsolate => true | _, _ => false end.
Definition q_eqb (a b : query) : bool :=
  list_eqb g_eqb (qy_groups a) (qy_groups b) && pol_eqb (qy_policy a) (qy_policy b) && oz_eqb (qy_limit a) (qy_limit b)
  && zl_eqb (qy_root_required a) (qy_root_required b) && zl_eqb (qy_root_forbidden a) (qy_root_forbidden b)
  && list_eqb zl_eqb (qy_same_subtree a) (qy_same_subtree b).
Definition cases : list (Z * qs * PRes squery * PRes query) := %s.
Definition bad := filter (fun c => let '(v, kv, es, et) := c in
  negb (pres_eqb sq_eqb (decode_candidates_s v kv) es && pres_eqb q_eqb (dec v kv) et)) cases.
Eval vm_compute in (length cases, length bad).
Definition bad_idx := map fst (filter (fun ic => let '(v, kv, es, et) := snd ic in
  negb (pres_eqb sq_eqb (decode_candidates_s v kv) es && pres_eqb q_eqb (dec v kv) et))
  (combine (map Z.of_nat (seq 0 (length cases))) cases)).
Eval vm_compute in (7777, firstn 5 bad_idx).
Eval vm_compute in map (fun c => let '(v, kv, es, et) := c in (v, kv, decode_candidates_s v kv, es)) (firstn 2 bad).
''' % tuple([lst('(%s, %s)' % (cstr(k), z(t)) for k, t in T.items()) for T in (T_RP, T_AG, T_TR, T_RC, T_SF)] + [lst(cases)]))
    return stats


def run(seed, n):
    root = os.path.dirname(os.path.dirname(os.path.abspath(__file__)))
    workdir = tempfile.mkdtemp(prefix='pvdecqc', dir='/dev/shm' if os.path.isdir('/dev/shm') else None)
    path = os.path.join(workdir, 'decqc.v')
    stats = main(seed, n, path)
    p = subprocess.run(['coqc', '-Q', os.path.join(root, 'coq'), 'PV', path], capture_output=True, text=True,
                       timeout=3000, cwd=workdir)
    import shutil
    if p.returncode != 0:
        if not os.environ.get('KEEP'):
            shutil.rmtree(workdir, ignore_errors=True)
        raise RuntimeError('coqc failed: %s' % p.stderr[-1500:])
    m = re.search(r'=\s*\((\d+)%nat,\s*(\d+)%nat\)', p.stdout)
    shutil.rmtree(workdir, ignore_errors=True)
    if not m:
        raise RuntimeError('cannot parse coqc output: %s' % p.stdout[-800:])
    n_cases, n_bad = int(m.group(1)), int(m.group(2))
    first = p.stdout[p.stdout.find(': nat * nat') + 11:][:3000] if n_bad else ''
    mi = re.search(r'\(7777,\s*\[([^\]]*)\]', p.stdout)
    stats['bad_cases'] = []
    if mi and mi.group(1).strip():
        import urllib.parse
        for x in mi.group(1).split(';'):
            v, kv = LAST_CASES[int(x.strip().replace('%Z', ''))]
            stats['bad_cases'].append({'version': v, 'query': urllib.parse.urlencode(kv), 'answer': call_handler_status(kv, v)})
    return n_cases, n_bad, first, stats


def call_handler_status(kv, v):
    h.ac_obj.AllocationCandidates.get_by_requests, orig = staticmethod(fake), h.ac_obj.AllocationCandidates.get_by_requests
    try:
        return 'rejected (400)' if call_handler(kv, v) == 'P400' else 'accepted'
    finally:
        h.ac_obj.AllocationCandidates.get_by_requests = orig


if __name__ == '__main__':
    print(run(int(sys.argv[1]), int(sys.argv[2])))
