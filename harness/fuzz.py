"""Grammar-based mutation of valid requests to every route (C15): structure, types, bounds up to and beyond
64-bit integers, unicode and control characters, repeated / conflicting query parameters, missing / extra
headers, malformed JSON.  Everything derives from one seeded PRNG."""
import copy
import json
import random

from harness import ops
from harness import surface

U = ops.uuid_of
SVC = {'x-roles': 'admin,service'}
BIG = [0, -1, 1, 2 ** 31 - 1, 2 ** 31, 2 ** 32, 2 ** 63 - 1, 2 ** 63, 2 ** 64, 10 ** 20, 10 ** 30, -2 ** 63, 1.5, 1e308, -0.0]
STRS = ['', ' ', 'a', 'A' * 256, 'CUSTOM_X\n', 'CUSTOM_\x00', 'CUSTOM_é', '‮', 'null', '[]', '{}', "'; DROP TABLE x; --",
        'VCPU', 'CUSTOM_N0', '../..', '%00', '\t', '\r\n', 'in:', '!', '!in:', ',', ':', '1:', ':1', 'VCPU:', 'VCPU:x', 'VCPU:-1',
        'VCPU:0', 'VCPU:99999999999999999999', U(1), U(1).upper(), U(1).replace('-', ''), '{' + U(1) + '}', 'x' * 36,
        '-' * 36, '\u00b2', 'VCPU:\u00b2', 'VCPU:\u0661', '\uff11\uff12', 'VCPU:1\u00b3', 'VCPU:\u2460', 'VCPU:+1', 'VCPU: 1', 'VCPU:1 ',
        'VCPU:1e3', 'VCPU:0x10', 'VCPU:1_000', '\u0661', '1_0', '+5', ' 5', '5 ', '0x5', '1e2']
# raw (already percent-encoded or deliberately broken) query-string fragments
RAW = ['%ff', '%80abc', '%', '%zz', '%C2', '%ED%A0%80', '%00', '%0A', '+', '%2B', '%26', '%3D', 'a%', '%c3%28']


class RawStr(str):
    """a query value that goes into the URL as it is (no percent-encoding)"""


def valid_requests(v=39):
    """(method, path, query dict or None, body) templates that are valid on surface.setup_state()"""
    A, B, S = surface.RP_A, surface.RP_B, surface.RP_SPARE
    C = surface.CONS_A
    alloc = {'allocations': {A: {'resources': {'VCPU': 1}}}, 'project_id': 'proj1', 'user_id': 'user1',
             'consumer_generation': 1, 'consumer_type': 'TYPE1'}
    new = dict(alloc, consumer_generation=None)
    return [
        ('GET', '/', None, None),
        ('GET', '/resource_providers', {'name': 'rpA'}, None),
        ('GET', '/resource_providers', {'resources': 'VCPU:1,MEMORY_MB:2', 'member_of': 'in:%s' % surface.AGG,
                                        'required': 'HW_CPU_X86_AVX,!CUSTOM_T1', 'in_tree': A}, None),
        ('POST', '/resource_providers', None, {'name': 'new1', 'uuid': U(40), 'parent_provider_uuid': A}),
        ('GET', '/resource_providers/%s' % A, None, None),
        ('PUT', '/resource_providers/%s' % B, None, {'name': 'rpB2', 'parent_provider_uuid': A}),
        ('DELETE', '/resource_providers/%s' % U(41), None, None),
        ('GET', '/resource_providers/%s/inventories' % A, None, None),
        ('PUT', '/resource_providers/%s/inventories' % S, None, {
            'resource_provider_generation': 2, 'inventories': {'VCPU': {'total': 8, 'reserved': 1, 'min_unit': 1, 'max_unit': 8,
                                                                          'step_size': 1, 'allocation_ratio': 2.0}}}),
        ('POST', '/resource_providers/%s/inventories' % S, None, {'resource_class': 'CUSTOM_N0', 'total': 5}),
        # reserved == total (allowed from 1.26): capacity 0 whatever the ratio, so an odd ratio gets past the capacity check
        ('POST', '/resource_providers/%s/inventories' % S, None, {'resource_class': 'MEMORY_MB', 'total': 5, 'reserved': 5,
                                                                   'allocation_ratio': 1.5}),
        ('GET', '/resource_providers/%s/inventories/VCPU' % A, None, None),
        ('PUT', '/resource_providers/%s/inventories/VCPU' % S, None, {'resource_provider_generation': 2, 'total': 4}),
        ('DELETE', '/resource_providers/%s/inventories/DISK_GB' % S, None, None),
        ('GET', '/resource_providers/%s/usages' % A, None, None),
        ('GET', '/resource_providers/%s/aggregates' % A, None, None),
        ('PUT', '/resource_providers/%s/aggregates' % S, None, {'resource_provider_generation': 2, 'aggregates': [surface.AGG]}),
        ('GET', '/resource_providers/%s/allocations' % A, None, None),
        ('GET', '/resource_providers/%s/traits' % A, None, None),
        ('PUT', '/resource_providers/%s/traits' % S, None, {'resource_provider_generation': 2, 'traits': ['CUSTOM_T1']}),
        ('DELETE', '/resource_providers/%s/traits' % S, None, None),
        ('GET', '/allocations/%s' % C, None, None),
        ('PUT', '/allocations/%s' % C, None, alloc),
        ('PUT', '/allocations/%s' % U(42, ops.K_CONS), None, new),
        ('DELETE', '/allocations/%s' % surface.CONS_SPARE, None, None),
        ('POST', '/allocations', None, {U(43, ops.K_CONS): new, C: alloc}),
        ('GET', '/allocation_candidates', {'resources': 'VCPU:1', 'limit': '5', 'required': 'HW_CPU_X86_AVX'}, None),
        ('GET', '/allocation_candidates', {'resources1': 'VCPU:1', 'resources_D': 'DISK_GB:1', 'group_policy': 'none',
                                           'member_of1': surface.AGG, 'in_tree_D': A, 'same_subtree': '1,_D',
                                           'root_required': '!CUSTOM_SPARE'}, None),
        ('GET', '/resource_classes', None, None),
        ('POST', '/resource_classes', None, {'name': 'CUSTOM_NEWRC'}),
        ('GET', '/resource_classes/VCPU', None, None),
        ('PUT', '/resource_classes/CUSTOM_NEW2', None, None),
        ('DELETE', '/resource_classes/CUSTOM_SPARE', None, None),
        ('GET', '/traits', {'name': 'startswith:CUSTOM', 'associated': 'true'}, None),
        ('GET', '/traits/CUSTOM_T1', None, None),
        ('PUT', '/traits/CUSTOM_NEWT', None, None),
        ('DELETE', '/traits/CUSTOM_SPARE', None, None),
        ('GET', '/usages', {'project_id': 'proj1', 'user_id': 'user1', 'consumer_type': 'TYPE1'}, None),
        ('POST', '/reshaper', None, {
            'inventories': {B: {'resource_provider_generation': 1, 'inventories': {'VCPU': {'total': 16}, 'MEMORY_MB': {'total': 4096},
                                                                               'DISK_GB': {'total': 100}}}},
            'allocations': {C: alloc}}),
    ]


def paths_of(obj, prefix=()):
    """all paths into a JSON value"""
    out = [prefix]
    if isinstance(obj, dict):
        for k, v in obj.items():
            out.extend(paths_of(v, prefix + (k,)))
    elif isinstance(obj, list):
        for i, v in enumerate(obj):
            out.extend(paths_of(v, prefix + (i,)))
    return out


def set_path(obj, path, value):
    if not path:
        return value
    o = obj
    for p in path[:-1]:
        o = o[p]
    o[path[-1]] = value
    return obj


def del_path(obj, path):
    o = obj
    for p in path[:-1]:
        o = o[p]
    if isinstance(o, dict):
        o.pop(path[-1], None)
    elif isinstance(o, list) and path[-1] < len(o):
        o.pop(path[-1])
    return obj


def rand_value(rng):
    k = rng.random()
    if k < 0.35:
        return rng.choice(BIG)
    if k < 0.7:
        return rng.choice(STRS)
    return rng.choice([None, True, False, [], {}, [1, 'a'], {'a': 1}, [[]], {'': {}}])


def mutate(rng, tmpl):
    """-> dict(method, path, query(list of pairs), body(raw bytes or None), headers, what)"""
    method, path, query, body = tmpl
    q = list((query or {}).items())
    hdrs = {'x-auth-token': 'admin', 'x-roles': 'admin,service', 'accept': 'application/json',
            'openstack-api-version': 'placement 1.39'}
    raw = None if body is None else json.dumps(body).encode()
    ctype = 'application/json' if body is not None else None
    what = []
    for _ in range(rng.choice([1, 1, 1, 2, 3])):
        k = rng.random()
        if body is not None and k < 0.45:
            b = copy.deepcopy(body)
            ps = paths_of(b)
            p = rng.choice(ps)
            m = rng.random()
            if m < 0.5 or not p:
                b = set_path(b, p, rand_value(rng))
                what.append('set %r' % (p,))
            elif m < 0.7:
                b = del_path(b, p)
                what.append('del %r' % (p,))
            elif m < 0.85 and isinstance(b, dict):
                b[rng.choice(STRS)] = rand_value(rng)
                what.append('extra key')
            else:
                # rename a key
                parent = b
                for x in p[:-1]:
                    parent = parent[x]
                if isinstance(parent, dict) and p[-1] in parent:
                    parent[rng.choice(STRS)] = parent.pop(p[-1])
                    what.append('rename %r' % (p,))
            body = b
            try:
                raw = json.dumps(b).encode()
            except (TypeError, ValueError):
                raw = repr(b).encode()
        elif body is not None and k < 0.52:
            raw = rng.choice([b'', b'{', b'[1,', b'\xff\xfe', b'null', b'"x"', b'{"a":1}' * 3, raw[:len(raw) // 2], raw + b'}',
                              b'{"allocations": ' + b'[' * 200 + b']' * 200 + b'}'])
            what.append('malformed json')
        elif k < 0.72:
            m = rng.random()
            if q and m < 0.5:
                i = rng.randrange(len(q))
                q[i] = (q[i][0], str(rand_value(rng)) if rng.random() < 0.6 else rng.choice(STRS))
                what.append('query value %s' % q[i][0])
            elif q and m < 0.65:
                i = rng.randrange(len(q))
                q.insert(rng.randrange(len(q) + 1), (q[i][0], q[i][1] if rng.random() < 0.4 else
                                                      (str(rand_value(rng)) if rng.random() < 0.5 else rng.choice(STRS))))
                what.append('repeated %s' % q[i][0])
            elif q and m < 0.72:
                i = rng.randrange(len(q))
                key, val = q[i]
                if ':' in str(val):          # amount of a resources parameter
                    head = str(val).rsplit(':', 1)[0]
                    q[i] = (key, '%s:%s' % (head, rng.choice([str(x) for x in BIG] + ['\u00b2', '\u0661\u0662', '1\u00b3', '+1', ' 1', '1e3', ''])))
                    what.append('amount %s' % key)
                else:
                    q[i] = (key, RawStr(rng.choice(RAW)))
                    what.append('raw %s' % key)
            elif m < 0.85:
                q.insert(rng.randrange(len(q) + 1), (rng.choice(['resources', 'required', 'member_of', 'in_tree', 'limit', 'group_policy', 'name', 'uuid',
                                      'resources1', 'required1', 'same_subtree', 'root_required', 'project_id', 'user_id',
                                      'consumer_type', 'associated', 'bogus', 'resources_' + 'x' * 65, 'member_of_A']),
                          rng.choice(STRS) if rng.random() < 0.85 else RawStr(rng.choice(RAW))))
                what.append('added query parameter')
            elif q:
                q.pop(rng.randrange(len(q)))
                what.append('dropped query parameter')
        elif k < 0.82:
            h = rng.choice(['openstack-api-version', 'accept', 'content-type', 'content-length', 'x-auth-token'])
            if h == 'openstack-api-version':
                hdrs[h] = rng.choice(['placement 1.0', 'placement 1.17', 'placement 1.40', 'placement latest', 'placement', 'compute 2.1',
                                      'placement 1.39, compute 2.1', 'placement x.y', 'placement 1.-1', 'placement 99999999999999999999.1', ''])
            elif h == 'accept':
                hdrs[h] = rng.choice(['text/html', '*/*', 'application/xml', '', 'application/json;q=0', 'garbage'])
            elif h == 'content-type':
                ctype = rng.choice([None, 'text/plain', 'application/x-www-form-urlencoded', 'application/json; charset=utf-16', ''])
            elif h == 'content-length':
                hdrs[h] = rng.choice(['-1', 'abc', '0', '99999999'])
            else:
                hdrs.pop('x-auth-token', None) if rng.random() < 0.3 else hdrs.update({'x-roles': rng.choice(['', 'reader', 'admin'])})
            what.append('header %s' % h)
        elif k < 0.92:
            segs = path.split('/')
            i = rng.randrange(1, len(segs))
            segs[i] = rng.choice(STRS + ['%0A', '%FF', 'a/b', U(77)])
            path = '/'.join(segs)
            what.append('path segment')
        else:
            method = rng.choice(['GET', 'POST', 'PUT', 'DELETE', 'PATCH', 'HEAD', 'OPTIONS', 'FOO'])
            what.append('method')
    return {'method': method, 'path': path, 'query': q, 'body': raw, 'ctype': ctype, 'headers': hdrs, 'what': what}


def issue(app, m):
    import urllib.parse
    import webob
    path = m['path']
    if m['query']:
        path += '?' + '&'.join('%s=%s' % (urllib.parse.quote_plus(str(k)), v if isinstance(v, RawStr) else
                                          urllib.parse.quote_plus(str(v))) for k, v in m['query'])
    try:
        req = webob.Request.blank(path, method=m['method'], headers=m['headers'])
    except Exception as exc:        # the client library refuses to build it: not a request the service can receive
        return None, 'unbuildable: %r' % exc
    if m['body'] is not None:
        req.body = m['body']
        if 'content-length' in m['headers']:
            req.headers['content-length'] = m['headers']['content-length']
    if m['ctype'] is not None:
        req.content_type = m['ctype']
    elif 'Content-Type' in req.headers:
        del req.headers['Content-Type']
    try:
        resp = req.get_response(app.app)
    except Exception as exc:
        return None, 'escaped exception: %r' % exc
    return resp, None
