"""Seeded generators of request histories (mostly valid, state-aware, with targeted failures).

Every random choice derives from the rng passed in (one seeded PRNG per history)."""
from harness import ops

VERSIONS = [0, 4, 7, 8, 11, 12, 13, 14, 18, 19, 20, 25, 26, 27, 28, 29, 30, 33, 34, 36, 37, 38, 39]
RATIOS = [1.0, 1.0, 1.0, 1.5, 16.0, 0.7, 0.1, 1 / 3, 2.5, 0.5, 1.0000000000000002, 4.0, 0.9999999999999999, 3.3, 0.0, -0.5, 1.0, 2.0]
RCS = [0, 1, 2, 0, 1, 2, 5, 1000, 1001, 1003]      # VCPU, MEMORY_MB, DISK_GB, ..., custom names
N_RP, N_NAME, N_CONS, N_AGG = 5, 6, 4, 3
TRAITS = [0, 1, 2, 3, 100001, 100002, 100003]

DEFAULT_PROFILE = {
    'names': 5, 'rp_create': 9, 'rp_update': 6, 'rp_delete': 4, 'inv_set': 14, 'inv_post': 4, 'inv_put': 5,
    'inv_delete': 3, 'inv_delete_all': 2, 'traits_set': 5, 'traits_delete': 2, 'aggs_set': 7,
    'alloc_put': 18, 'alloc_post': 8, 'alloc_delete': 4, 'reshape': 8,
}
PROFILES = {
    'default': DEFAULT_PROFILE,
    'alloc': dict(DEFAULT_PROFILE, alloc_put=30, alloc_post=16, reshape=14, inv_set=18, rp_create=8, names=2),
    'tree': dict(DEFAULT_PROFILE, rp_create=30, rp_update=35, rp_delete=14, alloc_put=6, alloc_post=2, reshape=2,
                 inv_set=4, names=1),
    'integrity': dict(DEFAULT_PROFILE, rp_delete=10, inv_delete=8, inv_delete_all=5, names=12, traits_set=8,
                      alloc_delete=8, alloc_post=16, reshape=10),
    'consumers': dict(DEFAULT_PROFILE, alloc_put=30, alloc_post=18, alloc_delete=10, reshape=10, names=1),
    'names': dict(dict((k, 1) for k in DEFAULT_PROFILE), names=40, inv_set=6, rp_create=6, traits_set=8, inv_delete_all=3),
}


class State(object):
    """View of the implementation's current canonical dump, used to pick mostly-valid arguments."""

    def __init__(self, dump):
        self.rps = {r[0]: r for r in dump[0]}
        self.invs = {}
        rcname = {row[0]: row[1] for row in dump[7]}
        for r in dump[1]:
            self.invs.setdefault(r[0], {})[rcname.get(r[1], r[1])] = r
        self.allocs = dump[2]
        self.cons = {r[0]: r for r in dump[3]}
        self.rcid = {row[1]: row[0] for row in dump[7]}

    def gen_of(self, u):
        return self.rps[u][2] if u in self.rps else 0

    def used(self, u, rc):
        rc = self.rcid.get(rc, rc)
        return sum(a[3] for a in self.allocs if a[1] == u and a[2] == rc)


# Directed histories (hist.run_history(directed=True)): the name of the targeted shape that the next generated
# request must take; the probabilistic gate of that shape is then skipped and the other shapes stay off.
FORCE = None
TARGETS = ('joint_claim', 'joint_claim_reshape', 'conflict_tail', 'conflict_tail_reshape', 'drop_in_use',
           'resize_in_use', 'agg_share', 'agg_share', 'float_edge', 'float_edge', 'drop_held_by_other', 'move', 'retighten')
# (total, allocation_ratio) whose double product is just BELOW an integer: total * ratio = c - epsilon; capacity is c - 1
FLOAT_EDGES = [(100, 1.15), (90, 0.7), (180, 0.35), (50, 2.3), (180, 1.15), (170, 0.7), (8, 0.0), (8, 0.0), (4, 0.0)]


def gate(rng, name, p_skip):
    """True = do not apply the targeted shape `name` to this request"""
    if FORCE is not None:
        rng.random()
        return not FORCE.startswith(name)
    return rng.random() < p_skip


def pick_v(rng, lo=0):
    return rng.choice([v for v in VERSIONS if v >= lo])


def gen_inv(rng, rc=None):
    total = rng.choice([1, 2, 4, 8, 10, 16, 100, 7])
    i = {'rc': rng.choice(RCS) if rc is None else rc,
         'total': total,
         'reserved': rng.choice([0, 0, 0, 1, total, total - 1 if total > 1 else 0, 2]),
         'min': rng.choice([1, 1, 1, 2, 3]),
         'max': rng.choice([ops.MAX_INT, ops.MAX_INT, total, 4, 2, 1]),
         'step': rng.choice([1, 1, 1, 2, 3]),
         'ratio': rng.choice(RATIOS)}
    omit = [k for k, dflt in (('reserved', 0), ('min', 1), ('max', ops.MAX_INT), ('step', 1), ('ratio', 1.0))
            if i[k] == dflt and rng.random() < 0.5]
    i['_omit'] = tuple(omit)
    return i


def gen_allocs(rng, st, maxrp=3, allow_empty=False):
    if allow_empty and rng.random() < 0.12:
        return []
    if rng.random() < 0.7:
        # valid by construction: claims that fit right now on one or two providers
        good = [u for u in st.rps if valid_claim(rng, st, u)]
        if good:
            out = []
            for u in rng.sample(good, min(len(good), rng.choice([1, 1, 2]))):
                out.append((u, valid_claim(rng, st, u)))
            return out
    rps = list(st.rps) or [1]
    out = []
    for u in rng.sample(range(1, N_RP + 1), rng.randint(1, maxrp)):
        if rng.random() < 0.9 and st.rps:
            u = rng.choice(rps)
        if any(u == x[0] for x in out):
            continue
        have = list(st.invs.get(u, {}))
        res = []
        for rc in set(rng.choice(have) if have and rng.random() < 0.9 else rng.choice(RCS)
                      for _ in range(rng.randint(1, 2))):
            amt = rng.choice([1, 1, 2, 3, 4, 5, 8, 10, 12, 16])
            inv = st.invs.get(u, {}).get(rc)
            if inv and rng.random() < 0.4:
                # aim at the capacity edge
                cap = int((inv[2] - inv[3]) * (inv[7] * 2.0 ** inv[8]))
                amt = max(1, cap - st.used(u, rc) + rng.choice([0, 0, 1, -1]))
            elif inv and rng.random() < 0.5:
                amt = max(1, inv[4]) * rng.randint(1, 3)
            res.append((rc, amt))
        out.append((u, sorted(res)))
    return out


def gen_cons(rng, st, v, allow_empty):
    c = rng.randint(1, N_CONS)
    known = st.cons.get(c)
    gen = None
    if known is not None:
        gen = known[4] if rng.random() < 0.85 else rng.choice([None, known[4] + 1, 0])
    elif rng.random() < 0.1:
        gen = 0
    d = {'uuid': c, 'allocs': gen_allocs(rng, st, allow_empty=allow_empty),
         'proj': rng.choice([1, 2, 3, 3]), 'user': rng.choice([1, 2, 3, 3]), 'gen': gen if v >= 28 else None,
         'type': rng.randint(1, 2) if v >= 38 else None}
    if v < 8:
        d['proj'] = None
        d['user'] = None
    return d


def joint_claim(rng, st, cs, avoid=()):
    """Targeted: make two consumers of one request claim the same (provider, class) so that each amount
    fits into the free capacity alone but their sum does not (the running-sum path of the capacity check);
    everything else about the two consumers is made valid so that the capacity check decides."""
    if len(cs) < 2 or gate(rng, 'joint_claim', 0.4):
        return
    mine = {c['uuid'] for c in cs[:2]}
    cands = []
    for u, d in st.invs.items():
        if u in avoid:
            continue
        for rc, inv in d.items():
            cap = int((inv[2] - inv[3]) * (inv[7] * 2.0 ** inv[8]))
            rcid = st.rcid.get(rc, rc)
            used_others = sum(a[3] for a in st.allocs if a[1] == u and a[2] == rcid and a[0] not in mine)
            free = cap - used_others
            step, lo, hi = max(1, inv[6]), inv[4], min(inv[5], free)
            amts = [x for x in range(step, hi + 1, step) if x >= lo]
            pairs = [(x, y) for x in amts for y in amts if x + y > free]
            if pairs:
                cands.append((u, rc, pairs))
    if not cands:
        return
    u, rc, pairs = rng.choice(cands)
    a1, a2 = rng.choice(pairs)
    for c, amt in zip(cs[:2], (a1, a2)):
        c['allocs'] = [(u, [(rc, amt)])]
        known = st.cons.get(c['uuid'])
        if c.get('gen') is not None or known is not None:
            c['gen'] = known[4] if known is not None else None
    for c in cs[2:]:
        c['allocs'] = [(uu, res) for uu, res in c['allocs'] if uu != u]
    cs[:] = [c for c in cs[:2]] + [c for c in cs[2:] if c['allocs']]


def valid_claim(rng, st, u):
    """[(rc, amount)] that fits provider u right now, or None"""
    for rc, inv in sorted(st.invs.get(u, {}).items()):
        cap = int((inv[2] - inv[3]) * (inv[7] * 2.0 ** inv[8]))
        free = cap - st.used(u, rc)
        step, lo, hi = max(1, inv[6]), inv[4], min(inv[5], free)
        amts = [x for x in range(step, hi + 1, step) if x >= lo]
        if amts:
            return [(rc, rng.choice(amts[:3]))]
    return None


def conflict_tail(rng, st, cs, v):
    """Targeted: a multi-consumer request whose leading consumers are fine (existing ones carrying their
    right generation, holding allocations) and whose LAST consumer has a generation conflict."""
    if v < 28 or gate(rng, 'conflict_tail', 0.75):
        return
    holders = [c for c in st.cons if any(a[0] == c for a in st.allocs)]
    rps = [u for u in st.rps if valid_claim(rng, st, u)]
    if not holders or not rps:
        return
    lead = rng.choice(holders)
    tail = rng.choice([c for c in range(1, N_CONS + 1) if c != lead])
    known = st.cons.get(tail)
    bad_gen = (known[4] + 1) if known is not None else 0
    u = rng.choice(rps)
    mk = lambda c, g, al: {'uuid': c, 'allocs': al, 'proj': st.cons[lead][1] if c == lead else 1,   # noqa: E731
                           'user': st.cons[lead][2] if c == lead else 1, 'gen': g,
                           'type': (rng.randint(1, 2) if v >= 38 else None)}
    keep = [(a[1], [(st_rcname(st, a[2]), a[3])]) for a in st.allocs if a[0] == lead][:1]
    cs[:] = [mk(lead, st.cons[lead][4], keep or [(u, valid_claim(rng, st, u))]),
             mk(tail, bad_gen, [(u, valid_claim(rng, st, u))])]


def st_rcname(st, rcid):
    for n, i in st.rcid.items():
        if i == rcid:
            return n
    return rcid


def drop_in_use(rng, st, ri, cs, v):
    """Targeted: a reshape whose allocations pass against the interim inventory but whose final inventory
    replacement drops a class the request itself allocates (rejected at the very last step)."""
    if gate(rng, 'drop_in_use', 0.8):
        return
    cands = [u for u in st.rps if valid_claim(rng, st, u) and len(st.invs.get(u, {})) >= 1]
    if not cands:
        return
    u = rng.choice(cands)
    claim = valid_claim(rng, st, u)
    rc = claim[0][0]
    keep = [r for r in st.invs[u] if r != rc]
    def inv_of(row, r):     # noqa: E306
        return {'rc': r, 'total': row[2], 'reserved': row[3], 'min': row[4], 'max': row[5], 'step': row[6],
                'ratio': row[7] * 2.0 ** row[8], '_omit': ()}
    ri[:] = [(u, st.gen_of(u), [inv_of(st.invs[u][r], r) for r in keep])]
    free_c = [c for c in range(1, N_CONS + 1) if c not in st.cons]
    if not free_c:
        return
    cs[:] = [{'uuid': rng.choice(free_c), 'allocs': [(u, claim)], 'proj': 1, 'user': 1, 'gen': None,
              'type': 1 if v >= 38 else None}]


def resize_in_use(rng, st, ri, cs, v):
    """Targeted: a reshape that changes the values of a class a consumer holds, with that consumer's allocation
    in the same request acceptable under only ONE of the old and new inventory (grown: only under the new one,
    must succeed; shrunk below the kept allocation: must be rejected)."""
    if gate(rng, 'resize_in_use', 0.8):
        return
    sole = []
    for a in st.allocs:
        c, u, rcid, used = a
        if sum(1 for b in st.allocs if b[1] == u and b[2] == rcid) == 1 and c in st.cons and u in st.rps:
            sole.append(a)
    if not sole:
        return
    c, u, rcid, used = rng.choice(sole)
    rc = st_rcname(st, rcid)
    if rc not in st.invs.get(u, {}):
        return
    row = st.invs[u][rc]
    old_cap = int((row[2] - row[3]) * (row[7] * 2.0 ** row[8]))

    def inv_of(rw, r):
        return {'rc': r, 'total': rw[2], 'reserved': rw[3], 'min': rw[4], 'max': rw[5], 'step': rw[6],
                'ratio': rw[7] * 2.0 ** rw[8], '_omit': ()}
    others = [inv_of(st.invs[u][r], r) for r in st.invs[u] if r != rc]
    if rng.random() < 0.5:
        total = max(old_cap, used) + rng.choice([1, 4, 8])
        amount = rng.randint(max(old_cap, used) + 1, total)
    else:
        if used < 2:
            return
        total = rng.randint(1, used - 1)
        amount = used
    new = {'rc': rc, 'total': total, 'reserved': 0, 'min': 1, 'max': ops.MAX_INT, 'step': 1, 'ratio': 1.0, '_omit': ()}
    ri[:] = [(u, st.gen_of(u), others + [new])]
    rows = {}
    for b in st.allocs:
        if b[0] == c:
            rows.setdefault(b[1], []).append((st_rcname(st, b[2]), amount if (b[1] == u and b[2] == rcid) else b[3]))
    k = st.cons[c]
    cs[:] = [{'uuid': c, 'allocs': sorted(rows.items()), 'proj': k[1], 'user': k[2], 'gen': k[4],
              'type': (k[3] if k[3] != -1 else 1) if v >= 38 else None}]


def retighten(rng, st, ri, cs, v):
    """Targeted: a reshape that keeps a class a consumer holds at the SAME capacity (same total, reserved and ratio, or another
    total x ratio with the same product) but changes its unit constraints, the consumer's allocation restated in the same request:
    the amount must be judged by the NEW max_unit / min_unit / step_size (violating them: rejected; satisfying only them: accepted)."""
    if gate(rng, 'retighten', 0.85):
        return
    sole = [a for a in st.allocs if a[0] in st.cons and a[1] in st.rps and a[3] >= 2]
    if not sole:
        return
    c, u, rcid, used = rng.choice(sole)
    rc = st_rcname(st, rcid)
    if rc not in st.invs.get(u, {}):
        return
    row = st.invs[u][rc]

    def inv_of(rw, r):
        return {'rc': r, 'total': rw[2], 'reserved': rw[3], 'min': rw[4], 'max': rw[5], 'step': rw[6],
                'ratio': rw[7] * 2.0 ** rw[8], '_omit': ()}
    new = inv_of(row, rc)
    how = rng.choice(['max', 'min', 'step', 'max_ok'])
    amount = used
    if how == 'max':
        new['max'] = used - 1
    elif how == 'min':
        new['min'] = used + 1
        new['max'] = max(new['max'], used + 1)
    elif how == 'step':
        new['step'] = used + 1
    else:
        # units RELAXED where the old ones forbade the amount the consumer now asks for: old max_unit below it
        cap = int((row[2] - row[3]) * (row[7] * 2.0 ** row[8]))
        others_used = st.used(u, rc) - used
        if row[5] >= cap - others_used or row[6] != 1:
            new['max'] = used - 1
        else:
            amount = row[5] + 1
            new['max'] = ops.MAX_INT
    others = [inv_of(st.invs[u][r], r) for r in st.invs[u] if r != rc]
    ri[:] = [(u, st.gen_of(u), others + [new])]
    rows = {}
    for b in st.allocs:
        if b[0] == c:
            rows.setdefault(b[1], []).append((st_rcname(st, b[2]), amount if (b[1] == u and b[2] == rcid) else b[3]))
    k = st.cons[c]
    cs[:] = [{'uuid': c, 'allocs': sorted(rows.items()), 'proj': k[1], 'user': k[2], 'gen': k[4],
              'type': (k[3] if k[3] != -1 else 1) if v >= 38 else None}]


def gen_op(rng, dump, profile='default'):
    prof = PROFILES[profile] if isinstance(profile, str) else profile
    st = State(dump)
    rps = list(st.rps)
    kinds = sorted(prof)
    kind = rng.choices(kinds, weights=[prof[k] for k in kinds])[0]
    if FORCE is not None:
        kind = ('alloc_post' if FORCE in ('joint_claim', 'conflict_tail', 'move') else
                'aggs_set' if FORCE == 'agg_share' else 'float_edge' if FORCE == 'float_edge' else 'reshape')
    if not rps and kind not in ('names', 'rp_create') and rng.random() < 0.7:
        kind = 'rp_create'

    def some_rp(p_known=0.9):
        if rps and rng.random() < p_known:
            return rng.choice(rps)
        return rng.randint(1, N_RP)

    def gen_for(u, p_ok=0.9):
        g = st.gen_of(u)
        return g if rng.random() < p_ok else g + rng.choice([1, -1, 2])

    if kind == 'float_edge':
        # directed: an inventory whose capacity (total - reserved) * ratio is a hair below an integer c, then a claim of
        # exactly c (one more than fits): must be refused however the comparison is written
        import math
        for u, d in sorted(st.invs.items()):
            for rc, inv in sorted(d.items()):
                ratio = inv[7] * 2.0 ** inv[8]
                cap = (inv[2] - inv[3]) * ratio
                c = math.ceil(cap)
                zero = (ratio == 0.0 and inv[2] > inv[3])       # ratio 0: capacity 0 whatever the total - a claim of 1 must be refused
                if (zero or (c != cap and c - cap < 1e-9 * c)) and inv[6] == 1 and inv[4] <= 1 and inv[5] >= max(c, 1):
                    free_c = [k for k in range(1, N_CONS + 1) if k not in st.cons]
                    if free_c:
                        need = 1 if zero else c - st.used(u, rc)
                        if need >= 1:
                            return ('alloc_put', 39, {'uuid': free_c[0], 'allocs': [(u, [(rc, need)])], 'proj': 1, 'user': 1,
                                                      'gen': None, 'type': 1})
        if rps:
            u = rng.choice(rps)
            total, ratio = rng.choice(FLOAT_EDGES)
            keep = [{'rc': r, 'total': row[2], 'reserved': row[3], 'min': row[4], 'max': row[5], 'step': row[6],
                     'ratio': row[7] * 2.0 ** row[8], '_omit': ()} for r, row in sorted(st.invs.get(u, {}).items()) if r != 0]
            return ('inv_set', 39, u, st.gen_of(u), keep + [{'rc': 0, 'total': total, 'reserved': 0, 'min': 1, 'max': ops.MAX_INT,
                                                              'step': 1, 'ratio': ratio, '_omit': ()}])
        return ('rp_create', 39, rng.randint(1, N_RP), rng.randint(1, N_NAME), None)
    if kind == 'names':
        k = rng.random()
        v = pick_v(rng, 0 if rng.random() < 0.1 else 7)
        if k < 0.3:
            return ('rc_create', v, rng.choice([1000, 1001, 1002, 0]))
        if k < 0.45:
            return ('rc_put', v, rng.choice([1000, 1001, 1002, 1]))
        if k < 0.55:
            have = sorted(row[1] for row in dump[7])
            if len(have) >= 2 and rng.random() < 0.45:
                old, new = rng.sample(have, 2)          # targeted: rename onto a name that exists (duplicate key at flush)
                return ('rc_rename', rng.choice([2, 4, 6]), old, new)
            return ('rc_rename', rng.choice([2, 4, 6, 7, 1]), rng.choice([1000, 1001, 1002, 0]),
                    rng.choice([1000, 1001, 1002, 2]))
        if k < 0.7:
            return ('rc_delete', v, rng.choice([1000, 1001, 1002, 1003, 0]))
        if k < 0.88:
            return ('trait_put', v, rng.choice([100001, 100002, 100003, 5]))
        return ('trait_delete', v, rng.choice([100001, 100002, 100003, 100004, 2]))
    if kind == 'rp_create':
        v = pick_v(rng)
        parent = None
        if v >= 14 and rps and rng.random() < 0.55:
            parent = some_rp(0.95)
            if rng.random() < 0.06:
                parent = 1000 + parent * 10 + rng.randrange(4)      # another spelling of that uuid (ops.spell)
        return ('rp_create', v, rng.randint(1, N_RP), rng.randint(1, N_NAME), parent)
    if kind == 'rp_update':
        v = pick_v(rng)
        u = some_rp()
        name = st.rps[u][1] if u in st.rps and rng.random() < 0.7 else rng.randint(1, N_NAME)
        parent = 'absent'
        if v >= 14 and rng.random() < 0.75:
            parent = None if rng.random() < 0.25 else some_rp(0.95)
            if parent is not None and rng.random() < 0.08:
                parent = 1000 + parent * 10 + rng.randrange(4)      # another spelling of that uuid (ops.spell)
        return ('rp_update', v, u, name, parent)
    if kind == 'rp_delete':
        return ('rp_delete', some_rp())
    if kind == 'inv_set':
        u = some_rp()
        rcs = rng.sample([0, 1, 2, 5, 1000, 1003], rng.randint(0, 3))
        if st.invs.get(u) and rng.random() < 0.6:
            rcs = list(set(rcs) | set(st.invs[u]))
            if rng.random() < 0.3:
                rcs = rcs[1:]
        rcs = [rc for rc in rcs if rc < 1000 or rng.random() < 0.3]
        return ('inv_set', pick_v(rng), u, gen_for(u), [gen_inv(rng, rc) for rc in rcs])
    if kind == 'inv_post':
        return ('inv_post', pick_v(rng), some_rp(), gen_inv(rng))
    if kind == 'inv_put':
        u = some_rp()
        have = list(st.invs.get(u, {}))
        rc = rng.choice(have) if have and rng.random() < 0.8 else rng.choice(RCS)
        return ('inv_put', pick_v(rng), u, gen_for(u), gen_inv(rng, rc))
    if kind == 'inv_delete':
        u = some_rp()
        have = list(st.invs.get(u, {}))
        rc = rng.choice(have) if have and rng.random() < 0.8 else rng.choice(RCS)
        return ('inv_delete', u, rc)
    if kind == 'inv_delete_all':
        return ('inv_delete_all', pick_v(rng), some_rp())
    if kind == 'traits_set':
        u = some_rp()
        ts = sorted(set(rng.choice(TRAITS[:4] if rng.random() < 0.8 else TRAITS)
                        for _ in range(rng.randint(0, 3))))
        return ('traits_set', pick_v(rng, 4), u, gen_for(u), ts)
    if kind == 'traits_delete':
        return ('traits_delete', pick_v(rng, 4), some_rp())
    if kind == 'aggs_set':
        u = some_rp()
        l = sorted(set(rng.randint(1, N_AGG) for _ in range(rng.randint(0, 3))))
        # targeted: aggregates SHARED between providers - join another provider's aggregates, or leave one that
        # others are still in (associations and aggregate records of the others must not be touched)
        mine = sorted(a for (w, a) in dump[10] if w == u)
        others = sorted(set(a for (w, a) in dump[10] if w != u))
        k = rng.random()
        if others and k < 0.35:
            l = sorted(set(l) | set(rng.sample(others, rng.randint(1, min(2, len(others))))))
        elif k < 0.6 and set(mine) & set(others):
            shared = sorted(set(mine) & set(others))
            drop = rng.choice(shared)
            l = [a for a in mine if a != drop]
        if FORCE == 'agg_share' and rps:
            # directed: an aggregate shared by two providers, then one of them leaves it (the other's membership and
            # the aggregate itself must stay)
            holders = {}
            for (w, a) in dump[10]:
                holders.setdefault(a, set()).add(w)
            shared = sorted((a, sorted(ws)) for a, ws in holders.items() if len(ws) >= 2)
            if shared and rng.random() < 0.7:
                a, ws = rng.choice(shared)
                u = rng.choice(ws)
                l = sorted(x for (w, x) in dump[10] if w == u and x != a)
            elif holders:
                a = rng.choice(sorted(holders))
                free = [w for w in rps if w not in holders[a]]
                if free:
                    u = rng.choice(free)
                    l = sorted(set(x for (w, x) in dump[10] if w == u) | {a})
            else:
                u = rng.choice(rps)
                l = [rng.randint(1, N_AGG)]
            return ('aggs_set', pick_v(rng, 1), u, st.gen_of(u), l)
        return ('aggs_set', pick_v(rng), u, gen_for(u), l)
    if kind == 'alloc_put':
        v = pick_v(rng)
        return ('alloc_put', v, gen_cons(rng, st, v, v >= 28))
    if kind == 'alloc_post':
        v = pick_v(rng, 12 if FORCE is None else 28)
        cs = []
        for _ in range(rng.randint(1, 3) if FORCE is None else 3):
            c = gen_cons(rng, st, max(v, 8), True)
            if all(c['uuid'] != x['uuid'] for x in cs):
                cs.append(c)
        joint_claim(rng, st, cs)
        conflict_tail(rng, st, cs, v)
        if FORCE == 'move':
            # directed: one request empties a holder (right generation) and gives another consumer a valid claim
            holders = [c for c in st.cons if any(a[0] == c for a in st.allocs)]
            good = [u for u in st.rps if valid_claim(rng, st, u)]
            if holders and good:
                a = rng.choice(holders)
                b = rng.choice([c for c in range(1, N_CONS + 1) if c != a])
                u = rng.choice(good)
                kb = st.cons.get(b)
                claim_b = [(u, valid_claim(rng, st, u))]
                held = [(x[1], x[2], x[3]) for x in st.allocs if x[0] == a and x[1] in st.rps]
                if held and rng.random() < 0.5:
                    # ... or B asks, on a (provider, class) A is leaving, for more than is free once A has left: the removal
                    # entry comes FIRST in the request and must not switch the capacity check off for that inventory
                    pu, prc, pamt = rng.choice(held)
                    rcn = st_rcname(st, prc)
                    inv = st.invs.get(pu, {}).get(rcn)
                    if inv is not None and inv[6] == 1 and inv[4] <= 1:
                        cap = int((inv[2] - inv[3]) * (inv[7] * 2.0 ** inv[8]))
                        free = cap - st.used(pu, rcn) + pamt
                        if 0 <= free < inv[5] and free + 1 <= ops.MAX_INT:
                            claim_b = [(pu, [(rcn, free + 1)])]
                            u = pu
                cs[:] = [{'uuid': a, 'allocs': [], 'proj': st.cons[a][1], 'user': st.cons[a][2], 'gen': st.cons[a][4],
                          'type': (st.cons[a][3] if st.cons[a][3] != -1 else 1) if v >= 38 else None},
                         {'uuid': b, 'allocs': claim_b, 'proj': kb[1] if kb else 1, 'user': kb[2] if kb else 1,
                          'gen': kb[4] if kb else None, 'type': ((kb[3] if kb and kb[3] != -1 else 1) if v >= 38 else None)}]
        return ('alloc_post', v, cs)
    if kind == 'alloc_delete':
        return ('alloc_delete', rng.randint(1, N_CONS))
    # reshape
    v = pick_v(rng, 29)
    ri = []
    for u in rng.sample(range(1, N_RP + 1), rng.randint(1, 2)):
        if rps and rng.random() < 0.9:
            u = rng.choice(rps)
        if any(u == x[0] for x in ri):
            continue
        rcs = rng.sample([0, 1, 2, 5, 1000], rng.randint(0, 3))
        if st.invs.get(u) and rng.random() < 0.7:
            rcs = list(set(rcs) | set(st.invs[u]))
            if rng.random() < 0.4:
                rcs = rcs[1:]
        ri.append((u, gen_for(u, 0.93), [gen_inv(rng, rc) for rc in rcs]))
    cs = []
    for _ in range(rng.randint(0, 2) if FORCE is None else 2):
        c = gen_cons(rng, st, max(v, 28), True)
        if all(c['uuid'] != x['uuid'] for x in cs):
            cs.append(c)
    if not ri or all(l for u, g, l in ri):
        joint_claim(rng, st, cs, avoid=[u for u, g, l in ri])
    conflict_tail(rng, st, cs, max(v, 28))
    drop_in_use(rng, st, ri, cs, v)
    resize_in_use(rng, st, ri, cs, v)
    retighten(rng, st, ri, cs, v)
    if FORCE == 'drop_held_by_other':
        # directed: the new inventory of a provider omits a class that a consumer NOT named by the request holds there
        held = sorted(set((a[1], a[2]) for a in st.allocs if a[1] in st.rps))
        if held:
            u, rcid = rng.choice(held)
            rc = st_rcname(st, rcid)
            keep = [{'rc': r, 'total': row[2], 'reserved': row[3], 'min': row[4], 'max': row[5], 'step': row[6],
                     'ratio': row[7] * 2.0 ** row[8], '_omit': ()} for r, row in sorted(st.invs.get(u, {}).items()) if r != rc]
            ri[:] = [(u, st.gen_of(u), keep)]
            others = [c for c in st.cons if not any(a[0] == c and a[1] == u and a[2] == rcid for a in st.allocs)]
            cs[:] = []
            if others and rng.random() < 0.5:
                c = rng.choice(others)
                k = st.cons[c]
                rows = {}
                for b in st.allocs:
                    if b[0] == c:
                        rows.setdefault(b[1], []).append((st_rcname(st, b[2]), b[3]))
                cs[:] = [{'uuid': c, 'allocs': sorted(rows.items()), 'proj': k[1], 'user': k[2], 'gen': k[4],
                          'type': (k[3] if k[3] != -1 else 1) if v >= 38 else None}]
    return ('reshape', v, ri, cs)
