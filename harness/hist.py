"""Run generated histories on the implementation and record observations."""
import random

from harness import gen
from harness import impl
from harness import ops


def observe(app, op):
    m, path, body, v = ops.op_http(op)
    r = app.request(m, path, body=body, version=v, headers={'x-roles': 'admin,service'})
    code = ops.ERROR_CODES.get(r.error_code(), 99) if r.status >= 400 else 0
    vnum = int(v.split('.')[1])
    if r.status >= 400 and vnum < 23:
        code = -1          # no code below 1.23: not compared
    return r, (r.status, code, ops.resp_gen(op, r))


def run_history(rng, n_ops, on_step=None, profile='default', directed=False):
    """directed: after a random prefix that builds some state, every second request takes one of the targeted
    shapes of gen.TARGETS (shapes that only a rare combination of circumstances produces by chance)."""
    app = impl.App()
    case = []
    dump = ops.canon_dump(app.raw_dump())
    for k in range(n_ops):
        gen.FORCE = gen.TARGETS[(k // 2) % len(gen.TARGETS)] if directed and k >= 10 and k % 2 == 0 else None
        try:
            op = gen.gen_op(rng, dump, 'alloc' if directed and k < 10 else profile)
        finally:
            gen.FORCE = None
        before = dump
        r, obs = observe(app, op)
        dump = ops.canon_dump(app.raw_dump())
        case.append((op, obs, dump))
        if on_step is not None:
            on_step(op, r, obs, before, dump)
    app.close()
    return case


def run_ops(op_list, on_step=None):
    app = impl.App()
    case = []
    dump = ops.canon_dump(app.raw_dump())
    for op in op_list:
        before = dump
        r, obs = observe(app, op)
        dump = ops.canon_dump(app.raw_dump())
        case.append((op, obs, dump))
        if on_step is not None:
            on_step(op, r, obs, before, dump)
    app.close()
    return case
