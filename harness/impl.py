"""In-process driver for the real placement WSGI application (from /repo's working tree).

No change to /repo is needed: configuration shim, SQLAlchemy engine events and WSGI only.
Must be imported with PYTHONPATH=/repo so that `placement` is the working tree.
"""
import json
import os
import sys
import threading
import uuid as uuidlib

REPO = os.environ.get('VERIF_REPO', '/repo')
if REPO not in sys.path:
    sys.path.insert(0, REPO)

import logging  # noqa: E402
logging.disable(logging.CRITICAL)

from oslo_config import cfg  # noqa: E402
from oslo_policy import opts as policy_opts  # noqa: E402
import sqlalchemy as sa  # noqa: E402
from sqlalchemy import event  # noqa: E402
import webob  # noqa: E402

import oslo_db.api as oslo_db_api  # noqa: E402
oslo_db_api.time.sleep = lambda *_a, **_k: None  # wrap_db_retry sleeps

from placement import conf as placement_conf  # noqa: E402
from placement import db_api  # noqa: E402
from placement import deploy  # noqa: E402
from placement import policy  # noqa: E402
from placement.db.sqlalchemy import migration  # noqa: E402
from placement.db.sqlalchemy import models  # noqa: E402
from placement.objects import resource_class as rc_obj  # noqa: E402
from placement.objects import trait as trait_obj  # noqa: E402

assert os.path.realpath(os.path.dirname(db_api.__file__)).startswith(
    os.path.realpath(REPO)), "placement not imported from %s" % REPO

_STATE = {}
TL = threading.local()


class Crash(BaseException):
    """A dying process: not caught by `except Exception` clean-ups."""


def _make_conf(db_url, overrides=None):
    conf = cfg.ConfigOpts()
    placement_conf.register_opts(conf)
    try:
        policy_opts._register(conf)
    except Exception:
        pass
    try:
        conf.register_opt(cfg.BoolOpt('enforce_scope', default=False),
                          group='oslo_policy')
    except cfg.DuplicateOptError:
        pass
    conf.set_default('connection', db_url, group='placement_database')
    conf.set_default('auth_strategy', 'noauth2', group='api')
    conf([], default_config_files=[], project='placement')
    for (grp, key), val in (overrides or {}).items():
        conf.set_override(key, val, group=grp)
    return conf


def init(db_url='sqlite://', overrides=None):
    """One engine per process (db_api.configure is run_once)."""
    if 'conf' in _STATE:
        return _STATE
    conf = _make_conf(db_url, overrides)
    db_api.configure(conf)
    engine = db_api.get_placement_engine()
    _STATE.update(conf=conf, engine=engine, listeners=[])
    _install_events(engine)
    return _STATE


# ---------------------------------------------------------------- events

class Observer(object):
    """Collects statements / top-level transactions; optional injection hook."""

    def __init__(self):
        self.reset()
        self.on_stmt = None      # f(index, statement, params) may raise
        self.on_begin = None     # f(txn_index) called at top-level BEGIN
        self.on_commit = None    # f(txn_index) called before COMMIT is issued

    def reset(self):
        self.stmts = []
        self.txns = []          # list of dict(first=..., tables=set, stmts=[...], end='C'|'R'|None)
        self.cur = None


OBS = Observer()


def _tables_of(stmt):
    s = stmt.lower()
    out = []
    for t in ('resource_providers', 'inventories', 'allocations', 'consumers',
              'projects', 'users', 'consumer_types', 'resource_classes',
              'traits', 'placement_aggregates',
              'resource_provider_aggregates', 'resource_provider_traits'):
        if t in s:
            out.append(t)
    return out


def _install_events(engine):
    @event.listens_for(engine, 'before_cursor_execute')
    def before(conn, cursor, statement, parameters, context, executemany):
        if not getattr(TL, 'observe', True):
            return
        st = statement.strip()
        if st == 'BEGIN' or st.startswith('BEGIN'):
            return
        OBS.stmts.append(st)
        if OBS.cur is not None:
            OBS.cur['stmts'].append(st)
        if OBS.on_stmt is not None:
            OBS.conn = conn
            OBS.on_stmt(len(OBS.stmts) - 1, st, parameters)

    @event.listens_for(engine, 'begin')
    def begin(conn):
        if not getattr(TL, 'observe', True):
            return
        OBS.cur = {'stmts': [], 'end': None}
        OBS.txns.append(OBS.cur)
        if OBS.on_begin is not None:
            OBS.on_begin(len(OBS.txns) - 1)

    @event.listens_for(engine, 'commit')
    def commit(conn):
        if not getattr(TL, 'observe', True):
            return
        if OBS.on_commit is not None:
            OBS.on_commit(len(OBS.txns) - 1)
        if OBS.cur is not None:
            OBS.cur['end'] = 'C'
            OBS.cur = None

    @event.listens_for(engine, 'rollback')
    def rollback(conn):
        if not getattr(TL, 'observe', True):
            return
        if OBS.cur is not None:
            OBS.cur['end'] = 'R'
            OBS.cur = None


# ---------------------------------------------------------------- app

class App(object):
    """A fresh database + application. Reuses the process-wide engine."""

    def __init__(self, overrides=None, policy_rules=None, sync=True, nocase=False):
        st = init()
        self.engine = st['engine']
        self.conf = st['conf']
        self._overrides = overrides or {}
        TL.observe = False
        try:
            # SQLite re-uses rowids of deleted rows unless AUTOINCREMENT is declared; MySQL and PostgreSQL
            # never do.  Declare it so that "DELETE ... WHERE id IN (ids read earlier)" behaves as there.
            for tbl in models.BASE.metadata.tables.values():
                tbl.kwargs['sqlite_autoincrement'] = True
                # nocase=True: compare uuid columns case-insensitively, as MySQL's default collations do
                for col in tbl.columns:
                    if col.name == 'uuid' and isinstance(col.type, sa.String):
                        col.type = sa.String(col.type.length, collation='NOCASE' if nocase else None)
            models.BASE.metadata.drop_all(self.engine)
            migration.create_schema(self.engine)
            trait_obj._TRAITS_SYNCED = False
            rc_obj._RESOURCE_CLASSES_SYNCED = False
            policy.reset()
            for (grp, key), val in self._overrides.items():
                self.conf.set_override(key, val, group=grp)
            self._policy_file = None
            if policy_rules is not None:
                self._policy_file = self._write_policy(policy_rules)
                self.conf.set_override('policy_file', self._policy_file, group='oslo_policy')
            if sync:
                self.app = deploy.loadapp(self.conf)
            else:
                self.app = deploy.deploy(self.conf)
                policy.init(self.conf)
        finally:
            TL.observe = True
        OBS.reset()

    def close(self):
        for (grp, key), _ in self._overrides.items():
            self.conf.clear_override(key, group=grp)
        if self._policy_file:
            self.conf.clear_override('policy_file', group='oslo_policy')
            try:
                os.remove(self._policy_file)
            except OSError:
                pass
            policy.reset()

    def _write_policy(self, rules):
        import tempfile
        fd, path = tempfile.mkstemp(prefix='pv_policy_', suffix='.yaml')
        with os.fdopen(fd, 'w') as f:
            for k, v in rules.items():
                f.write('"%s": "%s"\n' % (k, v))
        return path

    def request(self, method, path, body=None, version=None, headers=None,
                token='admin', raw_body=None, content_type='application/json',
                accept='application/json'):
        hdrs = {}
        if token is not None:
            hdrs['x-auth-token'] = token
        if version is not None:
            hdrs['OpenStack-API-Version'] = 'placement %s' % version
        if accept is not None:
            hdrs['accept'] = accept
        if headers:
            hdrs.update(headers)
        req = webob.Request.blank(path, method=method, headers=hdrs)
        if raw_body is not None:
            req.body = raw_body
            if content_type:
                req.content_type = content_type
        elif body is not None:
            req.body = json.dumps(body).encode('utf-8')
            if content_type:
                req.content_type = content_type
        resp = req.get_response(self.app)
        return Resp(resp)

    # ------------------------------------------------------------ dumps
    def raw_dump(self):
        """All tables as lists of dict rows (internal ids kept)."""
        TL.observe = False
        try:
            out = {}
            with self.engine.connect() as conn:
                for name, tbl in models.BASE.metadata.tables.items():
                    rows = conn.execute(sa.select(tbl)).fetchall()
                    out[name] = [
                        {k: v for k, v in r._mapping.items()
                         if k not in ('created_at', 'updated_at')}
                        for r in rows]
            return out
        finally:
            TL.observe = True


class Resp(object):
    def __init__(self, resp):
        self.status = resp.status_int
        self.headers = {k.lower(): v for k, v in resp.headers.items()}
        self.body = resp.body
        self.json = None
        if resp.body:
            try:
                self.json = json.loads(resp.body.decode('utf-8'))
            except Exception:
                self.json = None

    def error_code(self):
        try:
            return self.json['errors'][0].get('code')
        except Exception:
            return None

    def __repr__(self):
        return '<Resp %s %s>' % (self.status, (self.body or b'')[:120])


def uuid_of(n, kind=0):
    """Deterministic uuid for token n (kind separates namespaces)."""
    return str(uuidlib.UUID(int=(kind << 64) | (n + 1)))
