"""Crash and fault injection at every SQL statement / commit of a request, on the real application.

A crash is a BaseException raised from the SQLAlchemy statement hook (it skips the `except Exception`
clean-ups exactly like a dying process; enginefacade closes the session, i.e. the transaction in flight is
rolled back).  A fault is an oslo.db exception raised from the same hook (DBDeadlock, DBDuplicateEntry,
DBConnectionError, DBError), optionally after rolling the DBAPI transaction back as MySQL does on deadlock.
"""
from oslo_db import exception as db_exc

from harness import hist
from harness import impl
from harness import ops

LAST_TXN_OF = []     # transaction index of every statement of the last statement_count() run
CORE_TABLES = ('resource_providers', 'inventories', 'allocations', 'consumers', 'placement_aggregates',
               'resource_provider_aggregates', 'resource_provider_traits', 'resource_classes', 'traits')


def corpus():
    """(name, setup ops, request op): all write routes, succeeding and failing variants."""
    from harness.checks_conc import inv, cons
    base = [('rp_create', 39, 1, 1, None), ('inv_set', 39, 1, 0, [inv(0, 8), inv(2, 100)]),
            ('rp_create', 39, 2, 2, 1), ('inv_set', 39, 2, 0, [inv(0, 8)]),
            ('traits_set', 39, 1, 1, [0]), ('aggs_set', 39, 1, 2, [1]),
            ('alloc_put', 39, cons(2, None, [(2, [(0, 1)])])),
            ('rp_create', 39, 3, 3, None), ('rc_create', 39, 1000), ('trait_put', 39, 100001)]
    # generations after setup: rp1 = 3, rp2 = 2, rp3 = 0; consumer 2 gen 1
    many = list(base)
    for u in range(10, 16):
        many += [('rp_create', 39, u, u, None), ('inv_set', 39, u, 0, [inv(rc, 4) for rc in range(17)])]
    many.append(('alloc_put', 39, cons(4, None, [(u, [(rc, 1) for rc in range(17)]) for u in range(10, 16)])))
    C = [
        ('rp-create-child', base, ('rp_create', 39, 4, 4, 2)),
        ('rp-reparent', base, ('rp_update', 39, 2, 2, 3)),
        ('rp-reparent-subtree', base + [('rp_create', 39, 4, 4, 2), ('rp_create', 39, 5, 5, 4)], ('rp_update', 39, 2, 2, 3)),
        ('rp-unparent-subtree', base + [('rp_create', 39, 4, 4, 2), ('rp_create', 39, 5, 5, 4)], ('rp_update', 39, 2, 2, None)),
        ('rp-delete', base, ('rp_delete', 3)),
        ('rp-delete-in-use', base, ('rp_delete', 2)),
        ('inv-set', base, ('inv_set', 39, 1, 3, [inv(0, 16), inv(1, 64)])),
        ('inv-set-drop-in-use', base, ('inv_set', 39, 2, 2, [inv(1, 64)])),
        ('inv-post', base, ('inv_post', 39, 1, inv(1, 64))),
        ('inv-put', base, ('inv_put', 39, 1, 3, inv(0, 4))),
        ('inv-delete', base, ('inv_delete', 1, 2)),
        ('inv-delete-all', base, ('inv_delete_all', 39, 1)),
        ('traits-set', base, ('traits_set', 39, 1, 3, [1, 2])),
        ('traits-delete', base, ('traits_delete', 39, 1)),
        ('aggs-set', base, ('aggs_set', 39, 1, 3, [2, 3])),
        ('aggs-set-keep-one-add-one', base, ('aggs_set', 39, 1, 3, [1, 2])),
        ('put-new-consumer-two-providers', base, ('alloc_put', 39, cons(3, None, [(1, [(0, 2), (2, 10)]), (2, [(0, 1)])]))),
        ('put-existing-consumer', base, ('alloc_put', 39, cons(2, 1, [(1, [(0, 3)])]))),
        ('put-empty', base, ('alloc_put', 39, cons(2, 1, []))),
        ('put-over-capacity-new-consumer', base, ('alloc_put', 39, cons(3, None, [(1, [(0, 2)]), (2, [(0, 8)])]))),
        ('put-unknown-provider-new-consumer', base, ('alloc_put', 39, cons(3, None, [(1, [(0, 2)]), (5, [(0, 1)])]))),
        ('post-two-consumers', base, ('alloc_post', 39, [cons(2, 1, [(1, [(0, 1)])]), cons(3, None, [(1, [(0, 1)]), (2, [(0, 2)])])])),
        ('post-conflict-after-create', base, ('alloc_post', 39, [cons(3, None, [(1, [(0, 1)])]), cons(2, 7, [(1, [(0, 1)])])])),
        # a move (one consumer emptied, another written) in one POST, at 1.39 and at versions without consumer generations
        ('post-move', base, ('alloc_post', 39, [cons(2, 1, []), cons(3, None, [(2, [(0, 1)])])])),
        ('post-move-1.27', base, ('alloc_post', 27, [cons(2, 1, []), cons(3, None, [(2, [(0, 1)])])])),
        ('post-move-1.13', base, ('alloc_post', 13, [cons(3, None, [(1, [(0, 1)])]), cons(2, 1, [])])),
        ('post-move-over-capacity-1.27', base, ('alloc_post', 27, [cons(2, 1, []), cons(3, None, [(2, [(0, 9)])])])),
        ('put-existing-consumer-1.27', base, ('alloc_put', 27, cons(2, 1, [(1, [(0, 3)])]))),
        ('put-existing-consumer-1.0', base, ('alloc_put', 0, cons(2, 1, [(1, [(0, 3)])]))),
        ('alloc-delete', base, ('alloc_delete', 2)),
        ('alloc-delete-three-providers', base + [('inv_set', 39, 3, 0, [inv(0, 4)]),
                                                 ('alloc_put', 39, cons(4, None, [(1, [(0, 1), (2, 5)]), (2, [(0, 1)]), (3, [(0, 2)])]))],
         ('alloc_delete', 4)),
        ('put-empty-three-providers', base + [('inv_set', 39, 3, 0, [inv(0, 4)]),
                                              ('alloc_put', 39, cons(4, None, [(1, [(0, 1)]), (2, [(0, 1)]), (3, [(0, 2)])]))],
         ('alloc_put', 39, cons(4, 1, []))),
        # a consumer with more rows than any batch size a delete might be split into (6 providers x 17 classes)
        ('alloc-delete-102-rows', many, ('alloc_delete', 4)),
        ('reshape', base, ('reshape', 39, [(2, 2, [inv(0, 8), inv(1, 32)])], [cons(2, 1, [(2, [(0, 1), (1, 4)])]), cons(3, None, [(1, [(0, 1)])])])),
        ('reshape-no-allocations-two-providers', base, ('reshape', 39, [(1, 3, [inv(0, 8)]), (3, 0, [inv(2, 100), inv(1, 64)])], [])),
        ('reshape-no-allocations-one-provider', base, ('reshape', 39, [(3, 0, [inv(0, 4)])], [])),
        ('reshape-drop-in-use', base, ('reshape', 39, [(1, 3, [inv(2, 100)])], [cons(3, None, [(1, [(0, 1)])])])),
        ('rc-create', base, ('rc_create', 39, 1001)),
        ('rc-delete', base, ('rc_delete', 39, 1000)),
        ('trait-put', base, ('trait_put', 39, 100002)),
        ('trait-delete', base, ('trait_delete', 39, 100001)),
    ]
    return C


def fresh(setup):
    app = impl.App()
    for op in setup:
        r, obs = hist.observe(app, op)
        assert obs[0] < 300, ('corpus setup failed', op, obs, r.body[:200])
    return app


def statement_count(setup, op):
    app = fresh(setup)
    impl.OBS.reset()
    r, obs = hist.observe(app, op)
    n = len(impl.OBS.stmts)
    ntx = len(impl.OBS.txns)
    global LAST_TXN_OF
    LAST_TXN_OF = []
    for ti, tx in enumerate(impl.OBS.txns):
        LAST_TXN_OF.extend([ti] * len(tx['stmts']))
    dump = ops.canon_dump(app.raw_dump())
    app.close()
    return n, ntx, obs, dump, list(impl.OBS.stmts)


def run_with(setup, op, on_stmt=None, on_commit=None):
    """Run op with hooks installed; returns (response or exception, observation or None, dump after)."""
    app = fresh(setup)
    before = ops.canon_dump(app.raw_dump())
    impl.OBS.reset()
    impl.OBS.on_stmt = on_stmt
    impl.OBS.on_commit = on_commit
    res = None
    obs = None
    try:
        try:
            res, obs = hist.observe(app, op)
        except impl.Crash as exc:
            res = exc
            # the dead process's connection is closed by the database: whatever it had open is rolled back
            raw = impl.init()['engine'].raw_connection()
            try:
                raw.rollback()
            finally:
                raw.close()
    finally:
        impl.OBS.on_stmt = None
        impl.OBS.on_commit = None
    stmts = list(impl.OBS.stmts)
    txns = [dict(t) for t in impl.OBS.txns]
    after = ops.canon_dump(app.raw_dump())
    app.close()
    return res, obs, before, after, stmts, txns


def crash_points(setup, op):
    """Yield (point description, before, after dump) for a crash before every statement and before every commit."""
    n, ntx, obs, final, stmts = statement_count(setup, op)
    for k in range(n + 1):
        def on_stmt(i, st, params, k=k):
            if i == k:
                raise impl.Crash('before statement %d' % k)
        res, o, before, after, _, _ = run_with(setup, op, on_stmt=on_stmt)
        yield ('before statement %d/%d' % (k, n), k, before, after, final, obs)
    for c in range(ntx):
        def on_commit(i, c=c):
            if i == c:
                raise impl.Crash('before commit of transaction %d' % c)
        res, o, before, after, _, _ = run_with(setup, op, on_commit=on_commit)
        yield ('before commit of transaction %d/%d' % (c, ntx), 1000 + c, before, after, final, obs)


FAULTS = {
    'deadlock': lambda: db_exc.DBDeadlock(),
    'duplicate': lambda: db_exc.DBDuplicateEntry(columns=['uuid']),
    'connection': lambda: db_exc.DBConnectionError(),
    'dberror': lambda: db_exc.DBError(),
}


def fault_points(setup, op, kind, rollback_first=False, only=None):
    """Yield dict(desc, k, res, obs, before, after, final, normal_obs, stmts, stmt) for one fault of `kind`
    injected at statement k (every k, or those in `only`)."""
    n, ntx, obs, final, stmts = statement_count(setup, op)
    for k in range(n):
        if only is not None and k not in only:
            continue
        fired = []

        def on_stmt(i, st, params, k=k, fired=fired):
            if i == k and not fired:
                fired.append(st)
                if rollback_first:
                    # the database has already rolled the transaction back (e.g. MySQL deadlock victim)
                    impl.OBS.conn.connection.rollback()
                raise FAULTS[kind]()
        res, o, before, after, executed, txns = run_with(setup, op, on_stmt=on_stmt)
        yield {'desc': '%s%s at statement %d/%d (%s)' % (kind, '+rollback' if rollback_first else '', k, n,
                                                         ' '.join(stmts[k].split())[:60] if k < len(stmts) else ''),
               'k': k, 'res': res, 'obs': o, 'before': before, 'after': after, 'final': final, 'normal_obs': obs,
               'stmts': stmts, 'stmt': stmts[k] if k < len(stmts) else '', 'executed': len(executed)}
