"""C11, reads DURING a request: a read answered between two transactions of a write request must report either the state
before that request or the state after it (when the request is eventually rejected: the state before) - never something
built from half of it.  "Reads report exactly the state produced by the successful writes": a request in flight has not
succeeded yet.

For every request of the crash / fault corpus (harness/inject.py: every write route, succeeding and failing variants, old and
new microversions) that runs more than one transaction: at the first statement of every transaction but the first - i.e.
after the commit before it - the whole read set (every provider / consumer / project / user / consumer-type read of the
state, several microversions) is issued through the service from inside the statement hook, and compared with the same reads
before and after the undisturbed request.  The outcome of the disturbed request must be the undisturbed one.

    PYTHONPATH=/repo:/verif PYTHONHASHSEED=0 /venv/bin/python -m harness.midreads
"""
import json
import sys

from harness import hist
from harness import impl
from harness import inject
from harness import ops

ADMIN = {'x-roles': 'admin,service'}


def paths_of(raw):
    paths = []
    for r in raw['resource_providers']:
        b = '/resource_providers/%s' % r['uuid']
        paths += [(b, 39), (b + '/inventories', 39), (b + '/usages', 39), (b + '/allocations', 39), (b + '/traits', 39), (b + '/aggregates', 39)]
    cons = set(c['uuid'] for c in raw['consumers']) | set(ops.uuid_of(n, ops.K_CONS) for n in range(1, 6))
    for c in sorted(cons):
        paths += [('/allocations/%s' % c, 39), ('/allocations/%s' % c, 27), ('/allocations/%s' % c, 11)]
    for p in raw['projects']:
        for v in (9, 37, 38, 39):
            paths.append(('/usages?project_id=%s' % p['external_id'], v))
        for u in raw['users']:
            paths.append(('/usages?project_id=%s&user_id=%s' % (p['external_id'], u['external_id']), 39))
        for ct in ['all', 'unknown'] + [t['name'] for t in raw.get('consumer_types', [])]:
            paths.append(('/usages?project_id=%s&consumer_type=%s' % (p['external_id'], ct), 39))
    paths += [('/resource_providers', 39), ('/resource_providers?in_tree=%s' % ops.uuid_of(1), 39), ('/traits?associated=true', 39),
              ('/traits?associated=false', 39), ('/resource_classes', 39)]
    return paths


def read_all(app, paths):
    out = {}
    for path, v in paths:
        r = app.request('GET', path, version='1.%d' % v, headers=ADMIN)
        body = r.json
        if isinstance(body, dict):
            body = dict(body)
        out[(path, v)] = (r.status, json.dumps(body, sort_keys=True) if body is not None else None)
    return out


def run(only=None):
    """-> (points, reads, [problem dicts])"""
    n_points = n_reads = 0
    bad = []
    for name, setup, op in inject.corpus():
        if only is not None and name != only:
            continue
        n, ntx, obs, final, stmts = inject.statement_count(setup, op)
        first = {}
        for i, t in enumerate(inject.LAST_TXN_OF):
            first.setdefault(t, i)
        if ntx < 2:
            continue
        app = inject.fresh(setup)
        P = set(paths_of(app.raw_dump()))
        hist.observe(app, op)
        P |= set(paths_of(app.raw_dump()))
        app.close()
        P = sorted(P)
        app = inject.fresh(setup)
        before = read_all(app, P)
        hist.observe(app, op)
        after = read_all(app, P)
        app.close()
        wrote = set()        # transactions that contain a write statement
        for i, st in enumerate(stmts):
            if str(st).lstrip().split(' ', 1)[0].upper() in ('INSERT', 'UPDATE', 'DELETE'):
                wrote.add(inject.LAST_TXN_OF[i])
        for t, k in sorted(first.items()):
            if t == 0 or not any(w < t for w in wrote):
                continue          # nothing committed yet: the state is the state before
            mid = {}
            busy = []
            holder = [None]

            def on_stmt(i, st, params, k=k, mid=mid, busy=busy, holder=holder):
                if i == k and not busy:
                    busy.append(1)
                    hook, impl.OBS.on_stmt = impl.OBS.on_stmt, None
                    try:
                        mid.update(read_all(holder[0], P))
                    finally:
                        impl.OBS.on_stmt = hook
            orig_fresh = inject.fresh

            def fresh2(s, holder=holder, orig_fresh=orig_fresh):
                a = orig_fresh(s)
                holder[0] = a
                return a
            inject.fresh = fresh2
            try:
                res, o, b, a, _, _ = inject.run_with(setup, op, on_stmt=on_stmt)
            finally:
                inject.fresh = orig_fresh
            n_points += 1
            n_reads += len(mid)
            allowed_after = obs[0] < 300
            for key, val in sorted(mid.items()):
                if val != before.get(key) and not (allowed_after and val == after.get(key)):
                    bad.append({'corpus': name, 'op': list(op[:2]), 'transaction': t, 'of': ntx, 'path': key[0], 'version': key[1],
                                'mid': val, 'before': before.get(key), 'after': after.get(key), 'request_status': obs[0]})
                    break
            if o != obs:
                bad.append({'corpus': name, 'transaction': t, 'path': None, 'version': None,
                            'mid': 'the reads changed the outcome of the request', 'before': list(obs), 'after': list(o or [])})
    return n_points, n_reads, bad


if __name__ == '__main__':
    if len(sys.argv) > 1 and sys.argv[1] == '--json':
        n, r, bad = run()
        json.dump({'points': n, 'reads': r, 'problems': bad}, sys.stdout)
        sys.exit(0)
    n, r, bad = run(sys.argv[1] if len(sys.argv) > 1 else None)
    for b in bad[:10]:
        print(json.dumps(b)[:700])
    print('%d points, %d reads, %d problems' % (n, r, len(bad)))
    sys.exit(1 if bad else 0)
