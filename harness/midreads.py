"""C11, reads DURING a request: a read answered between two transactions of a write request must report either the state
before that request or the state after it (when the request is eventually rejected: the state before) - never something
built from half of it.  "Reads report exactly the state produced by the successful writes": a request in flight has not
succeeded yet.

For every request of the crash / fault corpus (harness/inject.py: every write route, succeeding and failing variants, old and
new microversions) that runs more than one transaction: at the first statement of every transaction but the first - i.e.
after the commit before it - the whole read set (every provider / consumer / project / user / consumer-type read of the
state, several microversions) is issued through the service from inside the statement hook, and compared with the same reads
before and after the undisturbed request.  The outcome of the disturbed request must be the undisturbed one.

    PYTHONPATH=/repo:/verif PYTHONHASHSEED=0 /venv/bin/python -m harness.midreads
"""
import json
import sys

from harness import hist
from harness import impl
from harness import inject
from harness import ops

ADMIN = {'x-roles': 'admin,service'}


def paths_of(raw):
    paths = []
    for r in raw['resource_providers']:
        b = '/resource_providers/%s' % r['uuid']
        paths += [(b, 39), (b + '/inventories', 39), (b + '/usages', 39), (b + '/allocations', 39), (b + '/traits', 39), (b + '/aggregates', 39)]
    cons = set(c['uuid'] for c in raw['consumers']) | set(ops.uuid_of(n, ops.K_CONS) for n in range(1, 6))
    for c in sorted(cons):
        paths += [('/allocations/%s' % c, 39), ('/allocations/%s' % c, 27), ('/allocations/%s' % c, 11)]
    for p in raw['projects']:
        for v in (9, 37, 38, 39):
            paths.append(('/usages?project_id=%s' % p['external_id'], v))
        for u in raw['users']:
            paths.append(('/usages?project_id=%s&user_id=%s' % (p['external_id'], u['external_id']), 39))
        for ct in ['all', 'unknown'] + [t['name'] for t in raw.get('consumer_types', [])]:
            paths.append(('/usages?project_id=%s&consumer_type=%s' % (p['external_id'], ct), 39))
    paths += [('/resource_providers', 39), ('/resource_providers?in_tree=%s' % ops.uuid_of(1), 39), ('/traits?associated=true', 39),
              ('/traits?associated=false', 39), ('/resource_classes', 39)]
    return paths


def read_all(app, paths):
    out = {}
    for path, v in paths:
        r = app.request('GET', path, version='1.%d' % v, headers=ADMIN)
        body = r.json
        if isinstance(body, dict):
            body = dict(body)
        out[(path, v)] = (r.status, json.dumps(body, sort_keys=True) if body is not None else None)
    return out


def run(only=None):
    """-> (points, reads, [problem dicts])"""
    n_points = n_reads = 0
    bad = []
    for name, setup, op in inject.corpus():
        if only is not None and name != only:
            continue
        n, ntx, obs, final, stmts = inject.statement_count(setup, op)
        first = {}
        for i, t in enumerate(inject.LAST_TXN_OF):
            first.setdefault(t, i)
        if ntx < 2:
            continue
        app = inject.fresh(setup)
        P = set(paths_of(app.raw_dump()))
        hist.observe(app, op)
        P |= set(paths_of(app.raw_dump()))
        app.close()
        P = sorted(P)
        app = inject.fresh(setup)
        before = read_all(app, P)
        hist.observe(app, op)
        after = read_all(app, P)
        app.close()
        wrote = set()        # transactions that contain a write statement
        for i, st in enumerate(stmts):
            if str(st).lstrip().split(' ', 1)[0].upper() in ('INSERT', 'UPDATE', 'DELETE'):
                wrote.add(inject.LAST_TXN_OF[i])
        for t, k in sorted(first.items()):
            if t == 0 or not any(w < t for w in wrote):
                continue          # nothing committed yet: the state is the state before
            mid = {}
            busy = []
            holder = [None]

            def on_stmt(i, st, params, k=k, mid=mid, busy=busy, holder=holder):
                if i == k and not busy:
                    busy.append(1)
                    hook, impl.OBS.on_stmt = impl.OBS.on_stmt, None
                    try:
                        mid.update(read_all(holder[0], P))
                    finally:
                        impl.OBS.on_stmt = hook
            orig_fresh = inject.fresh

            def fresh2(s, holder=holder, orig_fresh=orig_fresh):
                a = orig_fresh(s)
                holder[0] = a
                return a
            inject.fresh = fresh2
            try:
                res, o, b, a, _, _ = inject.run_with(setup, op, on_stmt=on_stmt)
            finally:
                inject.fresh = orig_fresh
            n_points += 1
            n_reads += len(mid)
            allowed_after = obs[0] < 300
            for key, val in sorted(mid.items()):
                if val != before.get(key) and not (allowed_after and val == after.get(key)):
                    bad.append({'corpus': name, 'op': list(op[:2]), 'transaction': t, 'of': ntx, 'path': key[0], 'version': key[1],
                                'mid': val, 'before': before.get(key), 'after': after.get(key), 'request_status': obs[0]})
                    break
            if o != obs:
                bad.append({'corpus': name, 'transaction': t, 'path': None, 'version': None,
                            'mid': 'the reads changed the outcome of the request', 'before': list(obs), 'after': list(o or [])})
    return n_points, n_reads, bad


# ------------------------------------------------------------------ the dual: a write committed DURING a read
def run_writes_during_reads():
    """At the first statement of every transaction but the first of a READ request, a write (one of four toggles: a consumer's
    allocations + project / user / type, an inventory, a provider's traits, a provider's name) is committed through the service;
    the read's answer must equal the answer of the same read just before or just after that write.  Injection is at
    transaction boundaries only (inside one transaction the database's isolation decides, which SQLite on one connection
    cannot show).  -> (points, [problems]); a problem whose only stale member is `resource_provider_generation` is marked
    stale_generation_only (recorded finding: the provider is loaded in a transaction of its own)."""
    from harness.checks_conc import inv, cons
    setup = [('rp_create', 39, 1, 1, None), ('inv_set', 39, 1, 0, [inv(0, 8), inv(2, 100)]),
             ('rp_create', 39, 2, 2, 1), ('inv_set', 39, 2, 0, [inv(0, 8)]),
             ('traits_set', 39, 1, 1, [0]), ('aggs_set', 39, 1, 2, [1]),
             ('alloc_put', 39, cons(2, None, [(2, [(0, 1)])])),
             ('alloc_put', 39, cons(3, None, [(1, [(0, 1), (2, 5)])]))]
    app = inject.fresh(setup)
    U = ops.uuid_of
    C2 = U(2, ops.K_CONS)
    state = {'n': 0}

    def req(m, p, b=None, v='1.39'):
        return app.request(m, p, b, version=v, headers=ADMIN)

    def flip():
        state['n'] += 1
        return state['n'] % 2

    def toggle_alloc():
        k = flip()
        g = req('GET', '/allocations/%s' % C2).json['consumer_generation']
        r = req('PUT', '/allocations/%s' % C2, {'allocations': {U(1 if k else 2): {'resources': {'VCPU': 1 + k}}}, 'project_id': 'p%d' % k,
                                               'user_id': 'u%d' % k, 'consumer_type': 'T%d' % k, 'consumer_generation': g})
        assert r.status == 204, (r.status, r.body)

    def toggle_inv():
        k = flip()
        g = req('GET', '/resource_providers/%s' % U(1)).json['generation']
        r = req('PUT', '/resource_providers/%s/inventories/VCPU' % U(1), {'resource_provider_generation': g, 'total': 8 + 8 * k})
        assert r.status == 200, (r.status, r.body)

    def toggle_traits():
        k = flip()
        g = req('GET', '/resource_providers/%s' % U(1)).json['generation']
        r = req('PUT', '/resource_providers/%s/traits' % U(1), {'resource_provider_generation': g,
                                                               'traits': ['HW_CPU_X86_AVX'] if k else ['STORAGE_DISK_SSD']})
        assert r.status == 200, (r.status, r.body)

    def toggle_name():
        k = flip()
        r = req('PUT', '/resource_providers/%s' % U(2), {'name': 'nm%d' % k, 'parent_provider_uuid': U(1)})
        assert r.status == 200, (r.status, r.body)

    toggles = [toggle_alloc, toggle_inv, toggle_traits, toggle_name]
    for t in toggles:      # both positions of every toggle exist before the reads start
        t()
        t()
    reads = [('/allocations/%s' % C2, 39), ('/allocations/%s' % C2, 27), ('/allocations/%s' % C2, 11),
             ('/resource_providers/%s/allocations' % U(1), 39), ('/resource_providers/%s/allocations' % U(2), 39),
             ('/resource_providers/%s/usages' % U(1), 39), ('/resource_providers/%s/usages' % U(2), 39),
             ('/resource_providers/%s/inventories' % U(1), 39), ('/resource_providers/%s/inventories/VCPU' % U(1), 39),
             ('/resource_providers/%s/traits' % U(1), 39), ('/resource_providers/%s/aggregates' % U(1), 39),
             ('/resource_providers/%s' % U(2), 39), ('/resource_providers?in_tree=%s' % U(1), 39),
             ('/resource_providers?resources=VCPU:1&required=HW_CPU_X86_AVX', 39),
             ('/usages?project_id=p0', 39), ('/usages?project_id=p1&user_id=u1', 39), ('/usages?project_id=p1&consumer_type=T1', 39),
             ('/allocation_candidates?resources=VCPU:1', 39), ('/traits?associated=true', 39)]

    def read(path, v):
        r = req('GET', path, None, '1.%d' % v)
        return r.status, r.json

    def same(a, b):
        return json.dumps(a, sort_keys=True) == json.dumps(b, sort_keys=True)

    def drop_gen(x):
        if isinstance(x, dict):
            return {k: drop_gen(v) for k, v in x.items() if k != 'resource_provider_generation'}
        if isinstance(x, (list, tuple)):
            return [drop_gen(v) for v in x]
        return x
    points = 0
    bad = []
    try:
        for path, v in reads:
            impl.OBS.reset()
            read(path, v)
            first, idx = [], 0
            for ti, tx in enumerate(impl.OBS.txns):
                if ti > 0:
                    first.append(idx)
                idx += len(tx['stmts'])
            for k in first:
                for t in toggles:
                    before = read(path, v)
                    fired = []

                    def on_stmt(i, st, params, k=k, t=t, fired=fired):
                        if i == k and not fired:
                            fired.append(1)
                            hook, impl.OBS.on_stmt = impl.OBS.on_stmt, None
                            try:
                                t()
                            finally:
                                impl.OBS.on_stmt = hook
                    impl.OBS.reset()
                    impl.OBS.on_stmt = on_stmt
                    try:
                        mid = read(path, v)
                    finally:
                        impl.OBS.on_stmt = None
                    after = read(path, v)
                    points += 1
                    if not same(mid, before) and not same(mid, after):
                        bad.append({'path': path, 'version': v, 'statement': k, 'write': t.__name__, 'mid': mid, 'before': before,
                                    'after': after,
                                    'stale_generation_only': same(drop_gen(mid), drop_gen(after)) or same(drop_gen(mid), drop_gen(before))})
    finally:
        impl.OBS.on_stmt = None
        app.close()
    return points, bad


if __name__ == '__main__':
    if len(sys.argv) > 1 and sys.argv[1] == '--json':
        n, r, bad = run()
        n2, bad2 = run_writes_during_reads()
        json.dump({'points': n, 'reads': r, 'problems': bad, 'read_points': n2, 'read_problems': bad2}, sys.stdout)
        sys.exit(0)
    if len(sys.argv) > 1 and sys.argv[1] == '--reads':
        n2, bad2 = run_writes_during_reads()
        for b in bad2[:10]:
            print(json.dumps(b)[:900])
        print('%d points, %d problems' % (n2, len(bad2)))
        sys.exit(0)
    n, r, bad = run(sys.argv[1] if len(sys.argv) > 1 else None)
    for b in bad[:10]:
        print(json.dumps(b)[:700])
    print('%d points, %d reads, %d problems' % (n, r, len(bad)))
    sys.exit(1 if bad else 0)
