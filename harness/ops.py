"""Abstract operations: encoding to HTTP (implementation side) and to Coq terms (model side),
token maps and canonical dumps."""
import math
import uuid as uuidlib

import os_resource_classes as orc
import os_traits

STD_RC = list(orc.STANDARDS)
STD_TRAITS = sorted(os_traits.get_traits())
CUSTOM_TRAIT_BASE = 100000
MAX_INT = 0x7FFFFFFF
INCOMPLETE = '00000000-0000-0000-0000-000000000000'

K_RP, K_CONS, K_AGG = 0, 1, 2


def uuid_of(n, kind=K_RP):
    # hex letters in the node part, so that an upper-case spelling differs from the stored string
    return str(uuidlib.UUID(int=(kind << 64) | (0xabcdef << 24) | (n + 1)))


def spell(n, kind=K_RP):
    """uuid of token n; tokens >= 1000 encode an ALTERNATE SPELLING of the uuid of provider (n - 1000) // 10:
    upper case, undashed hex, braces, urn:uuid: - valid for the 'uuid' format of the schemas, but not the stored
    string (the model treats such a token as naming no provider)"""
    if isinstance(n, int) and n >= 1000 and kind == K_RP:
        base = uuid_of((n - 1000) // 10, kind)
        style = n % 10
        return [base.upper(), base.replace('-', ''), '{%s}' % base, 'urn:uuid:' + base][style % 4]
    return uuid_of(n, kind)


def tok_of_uuid(s):
    try:
        i = uuidlib.UUID(s).int
    except Exception:
        return -2
    return (i & ((1 << 24) - 1)) - 1


def rp_name(n):
    return 'rp%d' % n


# project 3 and user 3 carry the SAME external id (keystone ids of projects and users live in different namespaces and may
# coincide - as the placeholder ids of [placement]incomplete_consumer_* do by default): the two tables must not be confused
SHARED_ID = 'shared-id-3'


def proj_name(n):
    return INCOMPLETE if n == 0 else SHARED_ID if n == 3 else 'proj%d' % n


def user_name(n):
    return INCOMPLETE if n == 0 else SHARED_ID if n == 3 else 'user%d' % n


def ctype_name(n):
    return 'TYPE%d' % n


def _hash_tok(s):
    import zlib
    return 10 ** 7 + zlib.crc32(s.encode('utf-8'))


def tok_of_name(s, prefix):
    """token-style names map back to their token; any other name to a stable hash (>= 10^7)"""
    if s == INCOMPLETE:
        return 0
    if s == SHARED_ID:
        return 3
    if s is not None and s.startswith(prefix) and s[len(prefix):].isdigit():
        return int(s[len(prefix):])
    return _hash_tok(s or '')


def rc_name(n):
    """resource class NAME token -> name: standard class i is token i, custom names are >= 1000"""
    if 0 <= n < len(STD_RC):
        return STD_RC[n]
    assert n >= 1000, n
    return 'CUSTOM_N%d' % (n - 1000)


def rc_tok(name):
    if name in STD_RC:
        return STD_RC.index(name)
    if name.startswith('CUSTOM_N') and name[len('CUSTOM_N'):].isdigit():
        return 1000 + int(name[len('CUSTOM_N'):])
    return _hash_tok(name)


def rc_map(dump):
    """name token -> id, from the canonical dump (table 7: [id, name token])"""
    return {row[1]: row[0] for row in dump[7]}


_RCMAP = {}


def rcid(n):
    if 0 <= n < len(STD_RC):
        return n
    return _RCMAP.get(n, -1)


def trait_name(t):
    if 0 <= t < len(STD_TRAITS):
        return STD_TRAITS[t]
    if t >= CUSTOM_TRAIT_BASE:
        return 'CUSTOM_T%d' % (t - CUSTOM_TRAIT_BASE)
    raise ValueError(t)


def trait_tok(name):
    if name.startswith('CUSTOM_T') and name[len('CUSTOM_T'):].isdigit():
        return CUSTOM_TRAIT_BASE + int(name[len('CUSTOM_T'):])
    if name in STD_TRAITS:
        return STD_TRAITS.index(name)
    return _hash_tok(name)


def ratio_me(x):
    """float -> canonical (m, e) with x == m * 2**e, m odd or 0."""
    x = float(x)
    if x == 0.0:
        return (0, 0)
    f, ex = math.frexp(x)
    m = int(f * (1 << 53))
    e = ex - 53
    assert m * (2.0 ** e) == x or True
    while m % 2 == 0:
        m //= 2
        e += 1
    return (m, e)


# ------------------------------------------------------------------ Coq printing
def z(n):
    return '(%d)' % n if n < 0 else '%d' % n


def oz(o):
    return 'None' if o is None else '(Some %s)' % z(o)


def lst(items):
    return '[' + '; '.join(items) + ']'


def inv_coq(i):
    m, e = ratio_me(i['ratio'])
    return '(mkInvIn %s %s %s %s %s %s %s %s)' % (
        z(rcid(i['rc'])), z(i['total']), z(i['reserved']), z(i['min']), z(i['max']),
        z(i['step']), z(m), z(e))


def allocs_coq(al):
    return lst('(mkAllocIn %s %s)' % (z(rp), lst('(%s, %s)' % (z(rcid(rc)), z(a)) for rc, a in res))
               for rp, res in al)


def cons_coq(c, v=39):
    # members the body does not carry at this version (alloc_body) are absent from the request term as well, so that the
    # term is exactly what Model/Decode.v reads from the body
    return '(mkConsIn %s %s %s %s %s %s)' % (
        z(c['uuid']), allocs_coq(c['allocs']), oz(c.get('proj') if v >= 8 else None), oz(c.get('user') if v >= 8 else None),
        oz(c.get('gen') if v >= 28 else None), oz(c.get('type') if v >= 38 else None))


def op_coq(op, rcmap=None):
    """rcmap: resource class name token -> id in the state the request is issued in"""
    global _RCMAP
    _RCMAP = rcmap or {}
    k = op[0]
    if k in ('rc_create', 'rc_put', 'rc_delete', 'trait_put', 'trait_delete'):
        cons = {'rc_create': 'RcCreate', 'rc_put': 'RcPut', 'rc_delete': 'RcDelete',
                'trait_put': 'TraitPut', 'trait_delete': 'TraitDelete'}[k]
        return '(%s %s %s)' % (cons, z(op[1]), z(op[2]))
    if k == 'rc_rename':
        return '(RcRename %s %s %s)' % (z(op[1]), z(op[2]), z(op[3]))
    if k == 'rp_create':
        _, v, u, name, parent = op
        return '(RpCreate %s %s %s %s)' % (z(v), z(u), z(name), oz(parent))
    if k == 'rp_update':
        _, v, u, name, parent = op
        p = 'None' if parent == 'absent' else '(Some %s)' % oz(parent)
        return '(RpUpdate %s %s %s %s)' % (z(v), z(u), z(name), p)
    if k == 'rp_delete':
        return '(RpDelete %s)' % z(op[1])
    if k == 'inv_set':
        _, v, u, g, l = op
        return '(InvSet %s %s %s %s)' % (z(v), z(u), z(g), lst(inv_coq(i) for i in l))
    if k == 'inv_post':
        _, v, u, i = op
        return '(InvPost %s %s %s)' % (z(v), z(u), inv_coq(i))
    if k == 'inv_put':
        _, v, u, g, i = op
        return '(InvPut %s %s %s %s)' % (z(v), z(u), z(g), inv_coq(i))
    if k == 'inv_delete':
        return '(InvDelete %s %s)' % (z(op[1]), z(rcid(op[2])))
    if k == 'inv_delete_all':
        return '(InvDeleteAll %s %s)' % (z(op[1]), z(op[2]))
    if k == 'traits_set':
        _, v, u, g, ts = op
        return '(TraitsSet %s %s %s %s)' % (z(v), z(u), z(g), lst(z(t) for t in ts))
    if k == 'traits_delete':
        return '(TraitsDelete %s %s)' % (z(op[1]), z(op[2]))
    if k == 'aggs_set':
        _, v, u, g, l = op
        return '(AggsSet %s %s %s %s)' % (z(v), z(u), z(g), lst(z(a) for a in l))
    if k == 'alloc_put':
        return '(AllocPut %s %s)' % (z(op[1]), cons_coq(op[2], op[1]))
    if k == 'alloc_post':
        return '(AllocPost %s %s)' % (z(op[1]), lst(cons_coq(c, max(op[1], 12)) for c in op[2]))
    if k == 'alloc_delete':
        return '(AllocDelete %s)' % z(op[1])
    if k == 'reshape':
        _, v, ri, al = op
        return '(Reshape %s %s %s)' % (
            z(v), lst('(mkRinvIn %s %s %s)' % (z(u), z(g), lst(inv_coq(i) for i in l))
                      for u, g, l in ri),
            lst(cons_coq(c, v) for c in al))
    raise ValueError(k)


# ------------------------------------------------------------------ HTTP encoding
def ver(v):
    return '1.%d' % v


def inv_body(i, full=True):
    b = {'total': i['total']}
    defaults = {'reserved': 0, 'min': 1, 'max': MAX_INT, 'step': 1, 'ratio': 1.0}
    names = {'reserved': 'reserved', 'min': 'min_unit', 'max': 'max_unit', 'step': 'step_size',
             'ratio': 'allocation_ratio'}
    omit = i.get('_omit', ())
    for k, n in names.items():
        if k in omit:
            assert i[k] == defaults[k]
            continue
        b[n] = i[k]
    return b


def alloc_body(v, c):
    al = c['allocs']
    if v < 12:
        allocations = [{'resource_provider': {'uuid': uuid_of(rp)},
                        'resources': {rc_name(rc): a for rc, a in res}} for rp, res in al]
    else:
        allocations = {uuid_of(rp): {'resources': {rc_name(rc): a for rc, a in res}}
                       for rp, res in al}
    b = {'allocations': allocations}
    if v >= 8:
        b['project_id'] = proj_name(c['proj'])
        b['user_id'] = user_name(c['user'])
    if v >= 28:
        b['consumer_generation'] = c.get('gen')
    if v >= 38:
        b['consumer_type'] = ctype_name(c['type'])
    return b


def op_http(op):
    """-> (method, path, body, version)"""
    k = op[0]
    if k == 'rc_create':
        return ('POST', '/resource_classes', {'name': rc_name(op[2])}, ver(op[1]))
    if k == 'rc_put':
        return ('PUT', '/resource_classes/%s' % rc_name(op[2]), None, ver(op[1]))
    if k == 'rc_rename':
        return ('PUT', '/resource_classes/%s' % rc_name(op[2]), {'name': rc_name(op[3])}, ver(op[1]))
    if k == 'rc_delete':
        return ('DELETE', '/resource_classes/%s' % rc_name(op[2]), None, ver(op[1]))
    if k == 'trait_put':
        return ('PUT', '/traits/%s' % trait_name(op[2]), None, ver(op[1]))
    if k == 'trait_delete':
        return ('DELETE', '/traits/%s' % trait_name_or_unknown(op[2]), None, ver(op[1]))
    if k == 'rp_create':
        _, v, u, name, parent = op
        b = {'name': rp_name(name), 'uuid': uuid_of(u)}
        if parent is not None:
            b['parent_provider_uuid'] = spell(parent)
        return ('POST', '/resource_providers', b, ver(v))
    if k == 'rp_update':
        _, v, u, name, parent = op
        b = {'name': rp_name(name)}
        if parent != 'absent':
            b['parent_provider_uuid'] = None if parent is None else spell(parent)
        return ('PUT', '/resource_providers/%s' % uuid_of(u), b, ver(v))
    if k == 'rp_delete':
        return ('DELETE', '/resource_providers/%s' % uuid_of(op[1]), None, ver(39))
    if k == 'inv_set':
        _, v, u, g, l = op
        return ('PUT', '/resource_providers/%s/inventories' % uuid_of(u),
                {'resource_provider_generation': g,
                 'inventories': {rc_name(i['rc']): inv_body(i) for i in l}}, ver(v))
    if k == 'inv_post':
        _, v, u, i = op
        b = inv_body(i)
        b['resource_class'] = rc_name(i['rc'])
        return ('POST', '/resource_providers/%s/inventories' % uuid_of(u), b, ver(v))
    if k == 'inv_put':
        _, v, u, g, i = op
        b = inv_body(i)
        b['resource_provider_generation'] = g
        return ('PUT', '/resource_providers/%s/inventories/%s' % (uuid_of(u), rc_name(i['rc'])), b, ver(v))
    if k == 'inv_delete':
        return ('DELETE', '/resource_providers/%s/inventories/%s' % (uuid_of(op[1]), rc_name(op[2])),
                None, ver(39))
    if k == 'inv_delete_all':
        return ('DELETE', '/resource_providers/%s/inventories' % uuid_of(op[2]), None, ver(op[1]))
    if k == 'traits_set':
        _, v, u, g, ts = op
        return ('PUT', '/resource_providers/%s/traits' % uuid_of(u),
                {'resource_provider_generation': g, 'traits': [trait_name_or_unknown(t) for t in ts]}, ver(v))
    if k == 'traits_delete':
        return ('DELETE', '/resource_providers/%s/traits' % uuid_of(op[2]), None, ver(op[1]))
    if k == 'aggs_set':
        _, v, u, g, l = op
        aggs = [uuid_of(a, K_AGG) for a in l]
        b = {'resource_provider_generation': g, 'aggregates': aggs} if v >= 19 else aggs
        return ('PUT', '/resource_providers/%s/aggregates' % uuid_of(u), b, ver(v))
    if k == 'alloc_put':
        _, v, c = op
        return ('PUT', '/allocations/%s' % uuid_of(c['uuid'], K_CONS), alloc_body(v, c), ver(v))
    if k == 'alloc_post':
        _, v, cs = op
        return ('POST', '/allocations', {uuid_of(c['uuid'], K_CONS): alloc_body(max(v, 12), c)
                                         for c in cs}, ver(v))
    if k == 'alloc_delete':
        return ('DELETE', '/allocations/%s' % uuid_of(op[1], K_CONS), None, ver(39))
    if k == 'reshape':
        _, v, ri, al = op
        return ('POST', '/reshaper', {
            'inventories': {uuid_of(u): {'resource_provider_generation': g,
                                         'inventories': {rc_name(i['rc']): inv_body(i) for i in l}}
                            for u, g, l in ri},
            'allocations': {uuid_of(c['uuid'], K_CONS): alloc_body(v, c) for c in al}}, ver(v))
    raise ValueError(k)


def trait_name_or_unknown(t):
    try:
        return trait_name(t)
    except ValueError:
        return 'CUSTOM_UNKNOWN_TRAIT_%d' % t


ERROR_CODES = {
    None: 0,
    'placement.concurrent_update': 1,
    'placement.inventory.inuse': 2,
    'placement.duplicate_name': 3,
    'placement.resource_provider.inuse': 4,
    'placement.resource_provider.cannot_delete_parent': 5,
    'placement.resource_provider.not_found': 6,
    'placement.undefined_code': 7,
}


def resp_gen(op, resp):
    """The generation a write response reports, or -1."""
    j = resp.json
    if not isinstance(j, dict) or resp.status >= 300:
        return -1
    if 'resource_provider_generation' in j:
        return j['resource_provider_generation']
    if 'generation' in j and op[0] in ('rp_create', 'rp_update'):
        return j['generation']
    return -1


# ------------------------------------------------------------------ canonical dump
def canon_dump(raw):
    rp_by_id = {r['id']: r for r in raw['resource_providers']}

    def rpt(i):
        r = rp_by_id.get(i)
        return tok_of_uuid(r['uuid']) if r else -1

    proj = {r['id']: tok_of_name(r['external_id'], 'proj') for r in raw['projects']}
    user = {r['id']: tok_of_name(r['external_id'], 'user') for r in raw['users']}
    ctype = {r['id']: tok_of_name(r['name'], 'TYPE') for r in raw['consumer_types']}
    agg = {r['id']: tok_of_uuid(r['uuid']) for r in raw['placement_aggregates']}
    trait = {r['id']: r['name'] for r in raw['traits']}
    out = []
    out.append(sorted([tok_of_uuid(r['uuid']), tok_of_name(r['name'], 'rp'), r['generation'],
                       rpt(r['parent_provider_id']) if r['parent_provider_id'] is not None else -1,
                       rpt(r['root_provider_id'])] for r in raw['resource_providers']))
    out.append(sorted([rpt(r['resource_provider_id']), r['resource_class_id'], r['total'], r['reserved'],
                       r['min_unit'], r['max_unit'], r['step_size']] + list(ratio_me(r['allocation_ratio']))
                      for r in raw['inventories']))
    out.append(sorted([tok_of_uuid(r['consumer_id']), rpt(r['resource_provider_id']),
                       r['resource_class_id'], r['used']] for r in raw['allocations']))
    out.append(sorted([tok_of_uuid(r['uuid']), proj.get(r['project_id'], -1), user.get(r['user_id'], -1),
                       ctype.get(r['consumer_type_id'], -1) if r['consumer_type_id'] is not None else -1,
                       r['generation']] for r in raw['consumers']))
    out.append(sorted([v] for v in proj.values()))
    out.append(sorted([v] for v in user.values()))
    out.append(sorted([v] for v in ctype.values()))
    out.append(sorted([r['id'], rc_tok(r['name'])] for r in raw['resource_classes']
                      if r['name'].startswith('CUSTOM_')))
    out.append(sorted([trait_tok(n)] for n in trait.values() if n.startswith('CUSTOM_')))
    out.append(sorted([v] for v in agg.values()))
    out.append(sorted([rpt(r['resource_provider_id']), agg.get(r['aggregate_id'], -1)]
                      for r in raw['resource_provider_aggregates']))
    out.append(sorted([rpt(r['resource_provider_id']),
                       trait_tok(trait[r['trait_id']]) if r['trait_id'] in trait else -1]
                      for r in raw['resource_provider_traits']))
    return out


def dump_coq(d):
    return lst(lst(lst(z(x) for x in row) for row in tbl) for tbl in d)
