"""Property oracles evaluated directly on the implementation's observations (independent of the
Coq model): each takes (op, obs=(status, code, gen), before_dump, after_dump) of one request and
returns a list of violation strings."""
from harness import ops

T_RPS, T_INVS, T_ALLOCS, T_CONS, T_PROJ, T_USER, T_CTYPE, T_RCS, T_TRAITS, T_AGGS, T_RPAGG, T_RPTRAIT = range(12)
CORE = (T_RPS, T_INVS, T_ALLOCS, T_CONS, T_RCS, T_TRAITS, T_AGGS, T_RPAGG, T_RPTRAIT)
ALLOC_WRITES = ('alloc_put', 'alloc_post', 'reshape')


def rcid_map(dump):
    return {row[1]: row[0] for row in dump[T_RCS]}


def placed(op, dump_before):
    """(rp, rc_id, amount) triples a request places (positive amounts)."""
    rcm = rcid_map(dump_before)

    def rid(n):
        return n if n < 1000 else rcm.get(n, -1)
    out = []
    if op[0] == 'alloc_put':
        cs = [op[2]]
    elif op[0] == 'alloc_post':
        cs = op[2]
    elif op[0] == 'reshape':
        cs = op[3]
    else:
        return out
    for c in cs:
        for rp, res in c['allocs']:
            for rc, amt in res:
                if amt > 0:
                    out.append((rp, rid(rc), amt))
    return out


def usage(dump, rp, rc):
    return sum(a[3] for a in dump[T_ALLOCS] if a[1] == rp and a[2] == rc)


def inv_of(dump, rp, rc):
    for i in dump[T_INVS]:
        if i[0] == rp and i[1] == rc:
            return i
    return None


def capacity(i):
    return (i[2] - i[3]) * (i[7] * 2.0 ** i[8])


def inv_change_targets(op):
    if op[0] in ('inv_set', 'inv_post', 'inv_put'):
        return {op[2]}
    if op[0] == 'inv_delete':
        return {op[1]}
    if op[0] == 'inv_delete_all':
        return {op[2]}
    if op[0] == 'reshape':
        return {u for u, g, l in op[2]}
    return set()


def c01(op, obs, before, after):
    v = []
    ok = obs[0] < 300
    if op[0] in ALLOC_WRITES and ok:
        for rp, rc, amt in placed(op, before):
            i = inv_of(after, rp, rc)
            if i is None:
                v.append('accepted write placed %d of class %d on provider %d without inventory' % (amt, rc, rp))
                continue
            if not (i[4] <= amt <= i[5]) or (i[6] != 0 and amt % i[6] != 0):
                v.append('accepted amount %d violates min/max/step (%d,%d,%d) on (%d,%d)' % (amt, i[4], i[5], i[6], rp, rc))
            if usage(after, rp, rc) > capacity(i):
                v.append('accepted write over-commits (%d,%d): used %d > capacity %r' % (rp, rc, usage(after, rp, rc), capacity(i)))
    changed = inv_change_targets(op) if ok else set()
    for i in after[T_INVS]:
        rp, rc = i[0], i[1]
        ua = usage(after, rp, rc)
        if ua > capacity(i) and rp not in changed:
            ib = inv_of(before, rp, rc)
            ub = usage(before, rp, rc)
            if ib is None or not ub > capacity(ib):
                v.append('(%d,%d) became over-committed by a request that is not an inventory change: %r' % (rp, rc, op[0]))
            elif ua > ub:
                v.append('usage of over-committed (%d,%d) grew %d -> %d' % (rp, rc, ub, ua))
    return v


def is_write(op):
    return True


def c04(op, obs, before, after):
    v = []
    if obs[0] >= 400:
        for t in CORE:
            if before[t] != after[t]:
                v.append('rejected request (%d) changed table %d: %r -> %r' % (obs[0], t, before[t], after[t]))
                break
    return v


def c08(op, obs, before, after):
    v = []
    d = after
    rps = {r[0] for r in d[T_RPS]}
    invs = {(i[0], i[1]) for i in d[T_INVS]}
    cons = {c[0] for c in d[T_CONS]}
    rc_ids = set(range(len(ops.STD_RC))) | {r[0] for r in d[T_RCS]}
    traits = set(range(len(ops.STD_TRAITS))) | {t[0] for t in d[T_TRAITS]}
    aggs = {a[0] for a in d[T_AGGS]}
    for a in d[T_ALLOCS]:
        if a[1] not in rps:
            v.append('allocation %r refers to a missing provider' % (a,))
        elif (a[1], a[2]) not in invs:
            v.append('allocation %r has no inventory' % (a,))
        if a[0] not in cons:
            v.append('allocation %r has no consumer record' % (a,))
    for i in d[T_INVS]:
        if i[0] not in rps:
            v.append('inventory %r refers to a missing provider' % (i,))
        if i[1] not in rc_ids:
            v.append('inventory %r refers to a missing resource class' % (i,))
    for r in d[T_RPS]:
        if r[4] not in rps:
            v.append('provider %r: its root pointer %r refers to no provider' % (r[0], r[4]))
        if r[3] != -1 and r[3] not in rps:
            v.append('provider %r: its parent pointer %r refers to no provider' % (r[0], r[3]))
    for x in d[T_RPAGG]:
        if x[0] not in rps or x[1] not in aggs:
            v.append('aggregate association %r dangles' % (x,))
    for x in d[T_RPTRAIT]:
        if x[0] not in rps or x[1] not in traits:
            v.append('trait association %r dangles' % (x,))
    # refusals
    b = before
    if op[0] == 'rp_delete' and op[1] in {r[0] for r in b[T_RPS]}:
        u = op[1]
        in_use = any(a[1] == u for a in b[T_ALLOCS]) or any(r[3] == u for r in b[T_RPS])
        if in_use and not (obs[0] == 409 and before == after):
            v.append('delete of provider %d in use answered %d' % (u, obs[0]))
        if not in_use:
            if obs[0] != 204:
                v.append('delete of unused provider %d answered %d' % (u, obs[0]))
            elif any(i[0] == u for i in d[T_INVS]) or any(x[0] == u for x in d[T_RPAGG]) \
                    or any(x[0] == u for x in d[T_RPTRAIT]) or u in rps:
                v.append('delete of provider %d left rows behind' % u)
    if op[0] == 'inv_delete':
        u, rc = op[1], rcid_map(b).get(op[2], op[2] if op[2] < 1000 else -1)
        if any(a[1] == u and a[2] == rc for a in b[T_ALLOCS]) and not (obs[0] == 409 and before == after):
            v.append('delete of inventory (%d,%d) in use answered %d' % (u, rc, obs[0]))
    if op[0] == 'rc_delete' and op[1] >= 2:
        n = op[2]
        rc = n if n < 1000 else rcid_map(b).get(n)
        if rc is not None:
            if n < 1000:
                if not (obs[0] == 400 and before == after):
                    v.append('delete of standard class %d answered %d' % (n, obs[0]))
            elif any(i[1] == rc for i in b[T_INVS]) and not (obs[0] == 409 and before == after):
                v.append('delete of class %d with inventory answered %d' % (n, obs[0]))
    if op[0] == 'trait_delete' and op[1] >= 6:
        t = op[2]
        if t < len(ops.STD_TRAITS):
            if not (obs[0] == 400 and before == after):
                v.append('delete of standard trait %d answered %d' % (t, obs[0]))
        elif [t] in b[T_TRAITS] and any(x[1] == t for x in b[T_RPTRAIT]) and not (obs[0] == 409 and before == after):
            v.append('delete of trait %d in use answered %d' % (t, obs[0]))
    return v


def c09(op, obs, before, after):
    v = []
    rps = {r[0]: r for r in after[T_RPS]}
    for u, r in rps.items():
        seen = set()
        cur = u
        while True:
            if cur in seen:
                v.append('provider %d is its own ancestor' % u)
                break
            seen.add(cur)
            p = rps[cur][3]
            if p == -1:
                if r[4] != cur:
                    v.append('provider %d has root %d but its top ancestor is %d' % (u, r[4], cur))
                break
            if p not in rps:
                v.append('provider %d has a missing parent %d' % (cur, p))
                break
            cur = p
    # rejections change nothing (part of C04's oracle too)
    if op[0] in ('rp_create', 'rp_update', 'rp_delete') and obs[0] >= 400 and before[T_RPS] != after[T_RPS]:
        v.append('rejected provider request changed the providers table')
    if op[0] == 'rp_update' and op[1] < 37 and obs[0] < 300:
        u = op[2]
        pb = {r[0]: r for r in before[T_RPS]}.get(u)
        pa = rps.get(u)
        if pb and pa and pb[3] != -1 and pa[3] != pb[3]:
            v.append('provider %d re-parented below 1.37' % u)
    return v


def c10(op, obs, before, after):
    v = []
    gb = {r[0]: r[2] for r in before[T_RPS]}
    ga = {r[0]: r[2] for r in after[T_RPS]}
    cb = {c[0]: c[4] for c in before[T_CONS]}
    ca = {c[0]: c[4] for c in after[T_CONS]}
    ok = obs[0] < 300
    for u in ga:
        if u in gb and ga[u] < gb[u]:
            v.append('generation of provider %d decreased' % u)
    for c in ca:
        if c in cb and ca[c] < cb[c]:
            v.append('generation of consumer %d decreased' % c)
    if not ok:
        for u in ga:
            if u in gb and ga[u] != gb[u]:
                v.append('rejected request changed generation of provider %d' % u)
        for c in ca:
            if c in cb and ca[c] != cb[c]:
                v.append('rejected request changed generation of consumer %d' % c)
    else:
        def rows(d, t, u, col=0):
            return [r for r in d[t] if r[col] == u]
        # providers whose inventories / traits / aggregates (>= 1.19) changed
        for u in ga:
            if u not in gb:
                continue
            changed = rows(before, T_INVS, u) != rows(after, T_INVS, u) or \
                rows(before, T_RPTRAIT, u) != rows(after, T_RPTRAIT, u)
            if op[0] == 'aggs_set' and op[1] >= 19 and rows(before, T_RPAGG, u) != rows(after, T_RPAGG, u):
                changed = True
            if changed and not ga[u] > gb[u]:
                v.append('provider %d changed without a generation increase' % u)
        if op[0] in ALLOC_WRITES:
            for rp, rc, amt in placed(op, before):
                if rp in gb and rp in ga and not ga[rp] > gb[rp]:
                    v.append('allocation write on provider %d did not increase its generation' % rp)
            cs = [op[2]] if op[0] == 'alloc_put' else (op[2] if op[0] == 'alloc_post' else op[3])
            for c in cs:
                u = c['uuid']
                if u in cb and u in ca and not ca[u] > cb[u]:
                    v.append('allocation write for consumer %d did not increase its generation' % u)
        # generation reported by the write equals the stored one
        if obs[2] >= 0:
            u = {'rp_create': 2, 'rp_update': 2, 'inv_set': 2, 'inv_post': 2, 'inv_put': 2,
                 'traits_set': 2, 'aggs_set': 2}.get(op[0])
            if u is not None and op[u] in ga and ga[op[u]] != obs[2]:
                v.append('write reported generation %d but %d is stored' % (obs[2], ga[op[u]]))
    return v


def c12(op, obs, before, after):
    v = []
    holders = {a[0] for a in after[T_ALLOCS]}
    stray_before = {c[0] for c in before[T_CONS]} - {a[0] for a in before[T_ALLOCS]}
    for c in after[T_CONS]:
        if c[0] not in holders and c[0] not in stray_before:
            v.append('consumer %d exists without allocations after %s (%d)' % (c[0], op[0], obs[0]))
    cons = {c[0] for c in after[T_CONS]}
    for h in holders:
        if h not in cons:
            v.append('consumer %d holds allocations without a consumer record' % h)
    if obs[0] >= 400:
        before_rows = {c[0]: c for c in before[T_CONS]}
        for c in after[T_CONS]:
            b = before_rows.get(c[0])
            if b is not None and b[:4] != c[:4]:
                v.append('rejected request (%d) changed project/user/type of consumer %d: %r -> %r'
                         % (obs[0], c[0], b[1:4], c[1:4]))
    if obs[0] < 300 and op[0] in ALLOC_WRITES:
        cs = [op[2]] if op[0] == 'alloc_put' else (op[2] if op[0] == 'alloc_post' else op[3])
        v_ = op[1]
        crow = {c[0]: c for c in after[T_CONS]}
        for c in cs:
            row = crow.get(c['uuid'])
            if row is None:
                continue
            proj = c['proj'] if v_ >= 8 else 0
            user = c['user'] if v_ >= 8 else 0
            if (row[1], row[2]) != (proj, user):
                v.append('consumer %d has project/user %r, expected %r' % (c['uuid'], (row[1], row[2]), (proj, user)))
            if v_ >= 38 and row[3] != c['type']:
                v.append('consumer %d has type %r, expected %r' % (c['uuid'], row[3], c['type']))
            # a write below 1.38 names no consumer type: the type of an EXISTING consumer stays what it was
            brow = {k[0]: k for k in before[T_CONS]}.get(c['uuid'])
            if v_ < 38 and brow is not None and row[3] != brow[3]:
                v.append('a write at 1.%d (no consumer type in the request) changed the type of consumer %d from %r to %r'
                         % (v_, c['uuid'], brow[3], row[3]))
    return v


ORACLES = {'C01': c01, 'C04': c04, 'C08': c08, 'C09': c09, 'C10': c10, 'C12': c12}
