"""Differential tie between coq/Model/Parse.v and the query-string value parsers of placement/util.py and
placement/lib.py (C15: a malformed query string is answered 400, never by an escaped exception).

Every case is (kind, arguments); the REAL function is called, its outcome canonicalised to
('ok', value) | ('400',) | ('escape', exception class name), and a Coq file is written that evaluates
the model on the same arguments with vm_compute and prints one agreement flag per case.

    PYTHONPATH=/repo:/verif PYTHONHASHSEED=0 /venv/bin/python -m harness.parse SEED N [--mutant isdigit|nomax]

run(seed, n) -> (n_cases, disagreements, stats)
"""
import importlib.util
import json
import os
import random
import re
import subprocess
import sys
import unicodedata
from urllib.parse import urlencode

import microversion_parse
import webob
import webob.exc
from oslo_utils import uuidutils

import placement.microversion
from placement import lib as real_lib
from placement import util as real_util

ROOT = os.path.dirname(os.path.dirname(os.path.abspath(__file__)))
COQDIR = os.path.join(ROOT, 'coq')
WORK = os.path.join(ROOT, 'work', 'parse')
SHARD = 400
MAX_INT = 0x7FFFFFFF

# ------------------------------------------------------------------ tables shared with the model
ND_ZEROS = [48, 1632, 1776, 1984, 2406, 2534, 2662, 2790, 2918, 3046, 3174, 3302, 3430, 3558, 3664, 3792, 3872,
            4160, 4240, 6112, 6160, 6470, 6608, 6784, 6800, 6992, 7088, 7232, 7248, 42528, 43216, 43264, 43472,
            43504, 43600, 44016, 65296, 66720, 68912, 69734, 69872, 69942, 70096, 70384, 70736, 70864, 71248,
            71360, 71472, 71904, 72016, 72784, 73040, 73120, 73552, 92768, 92864, 93008, 120782, 120792, 120802,
            120812, 120822, 123200, 123632, 124144, 125264, 130032]
SPACES = ([9, 10, 11, 12, 13, 28, 29, 30, 31, 32, 133, 160, 5760] + list(range(8192, 8203))
          + [8232, 8233, 8239, 8287, 12288])
INT_SPACES = [c for c in SPACES if not 28 <= c <= 31]
# the blocks named in the model's header come first: they are drawn most often
MAIN_BLOCKS = [48, 0x660, 0x6F0, 0x966, 0xFF10]


def builtin_table_checks():
    """The finite tables of the model against the running interpreter, over ALL code points.
    -> list of discrepancies (empty when the model's tables are those of this Python)."""
    bad = []
    if sys.get_int_max_str_digits() != 4300:
        bad.append(('int_max_str_digits', sys.get_int_max_str_digits()))
    model_digit = {}
    for z in ND_ZEROS:
        for k in range(10):
            model_digit[z + k] = k
    hexs = set('0123456789abcdef')
    for c in range(0x110000):
        if 0xD800 <= c <= 0xDFFF:
            continue
        ch = chr(c)
        if unicodedata.decimal(ch, None) != model_digit.get(c):
            bad.append(('decimal', c))
        try:
            v = int(ch)
        except ValueError:
            v = None
        if v != model_digit.get(c):
            bad.append(('int-digit', c))
        if ch.isspace() != (c in SPACES) or (ch.strip() == '') != (c in SPACES):
            bad.append(('isspace', c))
        try:
            int(ch + '1')
            lead = True
        except ValueError:
            lead = False
        if lead != (c in INT_SPACES or c in (43, 45) or c in model_digit):
            bad.append(('int-space', c))
        # only [0-9A-Fa-f] lowercases into [0-9a-f]: premise of the is_uuid_like model
        if (set(ch.lower()) <= hexs) != (ch in '0123456789abcdefABCDEF'):
            bad.append(('lower-hex', c))
    return bad


# ------------------------------------------------------------------ the real functions
def load_util(mutant=None):
    """the module whose functions are called: placement.util itself, or a mutated COPY under another name"""
    if not mutant:
        return real_util
    src = open(real_util.__file__).read()
    if mutant == 'isdigit':
        a = "        try:\n            amount = int(amount)\n        except ValueError:\n"
        b = "            raise webob.exc.HTTPBadRequest(msg)\n        if amount < 1:"
        assert src.count(a) == 1 and src.count(b) == 1
        src = src.replace(a, "        if not amount.isdigit():\n")
        src = src.replace(b, "            raise webob.exc.HTTPBadRequest(msg)\n        amount = int(amount)\n        if amount < 1:")
    elif mutant == 'nomax':
        a = "        if amount > db_const.MAX_INT:"
        assert src.count(a) == 1
        src = src.replace(a, "        if False:")
    elif mutant == 'nounpack':
        a = "        except ValueError:\n            msg = ('Badly formed resources parameter. Expected resources '"
        assert src.count(a) == 1
        src = src.replace(a, "        except KeyError:\n            msg = ('Badly formed resources parameter. Expected resources '")
    else:
        raise ValueError(mutant)
    os.makedirs(WORK, exist_ok=True)
    path = os.path.join(WORK, 'util_mut_%s.py' % mutant)
    with open(path, 'w') as f:
        f.write(src)
    spec = importlib.util.spec_from_file_location('pv_util_mut_%s' % mutant, path)
    mod = importlib.util.module_from_spec(spec)
    spec.loader.exec_module(mod)
    return mod


def make_req(pairs, minor):
    req = webob.Request.blank('/allocation_candidates?' + urlencode(pairs))
    v = microversion_parse.Version(1, minor)
    v.max_version = microversion_parse.parse_version_string(placement.microversion.max_version_string())
    v.min_version = microversion_parse.parse_version_string(placement.microversion.min_version_string())
    req.environ[placement.microversion.MICROVERSION_ENVIRON] = v
    return req


def outcome(f):
    try:
        return ('ok', f())
    except webob.exc.HTTPBadRequest:
        return ('400',)
    except Exception as exc:    # noqa: the point of the exercise
        return ('escape', type(exc).__name__)


def sset(s):
    return sorted(s)


def values_of(pairs, name):
    return [v for k, v in pairs if k == name]


def call_real(case, util):
    """-> canonical outcome of the real function on the case"""
    kind = case[0]
    if kind == 'int':
        try:
            return ('ok', int(case[1]))
        except ValueError:
            return ('raise', 'ValueError')
        except Exception as exc:    # noqa
            return ('raise', type(exc).__name__)
    if kind == 'strip':
        return ('ok', case[1].strip())
    if kind == 'split':
        return ('ok', case[2].split(chr(case[1])))
    if kind == 'lstrip':
        return ('ok', case[1].lstrip('!'))
    if kind == 'replace':
        return ('ok', case[2].replace(case[1], ''))
    if kind == 'uuid':
        return outcome(lambda: bool(uuidutils.is_uuid_like(case[1])))
    if kind == 'resources':
        return outcome(lambda: list(util.normalize_resources_qs_param(case[1]).items()))
    if kind == 'traits':
        def f():
            req, forb = util.normalize_traits_qs_param(case[1], case[2], case[3])
            return ([sset(s) for s in req], sset(forb))
        return outcome(f)
    if kind == 'legacy':
        return outcome(lambda: sset(util.normalize_traits_qs_param_to_legacy_value(case[1], case[2])))
    if kind == 'traits_params':
        _, minor, suffix, pairs = case

        def f():
            rq = make_req(pairs, minor)
            assert rq.GET.getall('required' + suffix) == values_of(pairs, 'required' + suffix)
            req, forb = util.normalize_traits_qs_params(rq, suffix)
            return ([sset(s) for s in req], sset(forb))
        return outcome(f)
    if kind == 'member_of':
        def f():
            req, forb = util.normalize_member_of_qs_param(case[1])
            return (sset(req), sset(forb))
        return outcome(f)
    if kind == 'member_of_params':
        _, minor, suffix, pairs = case

        def f():
            rq = make_req(pairs, minor)
            assert rq.GET.getall('member_of' + suffix) == values_of(pairs, 'member_of' + suffix)
            req, forb = util.normalize_member_of_qs_params(rq, suffix)
            return ([sset(s) for s in req], sset(forb))
        return outcome(f)
    if kind == 'in_tree':
        return outcome(lambda: util.normalize_in_tree_qs_params(case[1]))
    if kind == 'rwp':
        _, pairs = case

        def f():
            rq = make_req(pairs, 39)
            for name in ('limit', 'group_policy', 'root_required', 'same_subtree'):
                assert rq.GET.getall(name) == values_of(pairs, name)
            p = real_lib.RequestWideParams.from_request(rq)
            anchors = None
            if p.anchor_required_traits is not None or p.anchor_forbidden_traits is not None:
                anchors = (sset(p.anchor_required_traits), sset(p.anchor_forbidden_traits))
            # without a limit the attribute keeps the (falsy) empty list getall() returned: the model's None
            limit = None if p.limit == [] else p.limit
            assert limit is None or type(limit) is int
            return (limit, p.group_policy, anchors, [sset(s) for s in p.same_subtrees])
        return outcome(f)
    if kind == 'key':
        _, verbose, key = case
        pat = real_lib._QS_KEY_PATTERN_1_33 if verbose else real_lib._QS_KEY_PATTERN
        m = pat.match(key)
        if not m:
            return ('ok', None)
        prefix, suffix = m.groups()
        return ('ok', (['resources', 'required', 'member_of', 'in_tree'].index(prefix), suffix or ''))
    raise ValueError(kind)


# ------------------------------------------------------------------ Coq terms
def cz(n):
    if abs(n) >= 10 ** 30:     # Coq reads a 4300-digit decimal numeral in half a minute, the hexadecimal one at once
        return '(-%s)' % hex(-n) if n < 0 else hex(n)
    return '(%d)' % n if n < 0 else '%d' % n


def cs(s):
    return '[' + ';'.join('%d' % ord(c) for c in s) + ']'


def cl(items):
    return '[' + '; '.join(items) + ']'


def cb(b):
    return 'true' if b else 'false'


def csl(l):
    return cl(cs(s) for s in l)


def csets(l):
    return cl(csl(s) for s in l)


def copt(x, f):
    return 'None' if x is None else '(Some %s)' % f(x)


def cpres(out, f):
    if out[0] == 'ok':
        return '(POk %s)' % f(out[1])
    if out[0] == '400':
        return 'P400'
    return 'PEscape'


def coq_flag(case, out):
    """boolean Coq expression: the model agrees with the observed outcome"""
    kind = case[0]
    if kind == 'int':
        exp = '(Ret %s)' % cz(out[1]) if out[0] == 'ok' else '(Raise %s)' % (
            'ValueError' if out[1] == 'ValueError' else 'TypeError')
        return 'r_eqb Z.eqb (int_of %s) %s' % (cs(case[1]), exp)
    if kind == 'strip':
        return 'str_eqb (strip %s) %s' % (cs(case[1]), cs(out[1]))
    if kind == 'split':
        return ('strs_eqb (split_char %d %s) %s && str_eqb (join_char %d %s) %s'
                % (case[1], cs(case[2]), csl(out[1]), case[1], csl(out[1]), cs(case[2])))
    if kind == 'lstrip':
        return 'str_eqb (lstrip_char 33 %s) %s' % (cs(case[1]), cs(out[1]))
    if kind == 'replace':
        return 'str_eqb (remove_sub %s %s) %s' % (cs(case[1]), cs(case[2]), cs(out[1]))
    if kind == 'uuid':
        return 'pres_eqb Bool.eqb (POk (is_uuid_like %s)) %s' % (cs(case[1]), cpres(out, cb))
    if kind == 'resources':
        return ('pres_eqb (list_eqb (pair_eqb str_eqb Z.eqb)) (to_pres (normalize_resources_qs_param %s)) %s'
                % (cs(case[1]), cpres(out, lambda d: cl('(%s, %s)' % (cs(k), cz(v)) for k, v in d))))
    if kind == 'traits':
        return ('pres_eqb (pair_eqb sets_eqb strs_eqb) (to_pres (normalize_traits_qs_param %s %s %s)) %s'
                % (cs(case[1]), cb(case[2]), cb(case[3]),
                   cpres(out, lambda r: '(%s, %s)' % (csets(r[0]), csl(r[1])))))
    if kind == 'legacy':
        return ('pres_eqb strs_eqb (to_pres (normalize_traits_qs_param_to_legacy_value %s %s)) %s'
                % (cs(case[1]), cb(case[2]), cpres(out, csl)))
    if kind == 'traits_params':
        _, minor, suffix, pairs = case
        return ('pres_eqb (pair_eqb sets_eqb strs_eqb) (to_pres (normalize_traits_qs_params %d %s)) %s'
                % (minor, csl(values_of(pairs, 'required' + suffix)),
                   cpres(out, lambda r: '(%s, %s)' % (csets(r[0]), csl(r[1])))))
    if kind == 'member_of':
        return ('pres_eqb (pair_eqb strs_eqb strs_eqb) (to_pres (normalize_member_of_qs_param %s)) %s'
                % (cs(case[1]), cpres(out, lambda r: '(%s, %s)' % (csl(r[0]), csl(r[1])))))
    if kind == 'member_of_params':
        _, minor, suffix, pairs = case
        return ('pres_eqb (pair_eqb sets_eqb strs_eqb) (to_pres (normalize_member_of_qs_params %d %s)) %s'
                % (minor, csl(values_of(pairs, 'member_of' + suffix)),
                   cpres(out, lambda r: '(%s, %s)' % (csets(r[0]), csl(r[1])))))
    if kind == 'in_tree':
        return 'pres_eqb str_eqb (to_pres (normalize_in_tree_qs_params %s)) %s' % (cs(case[1]), cpres(out, cs))
    if kind == 'rwp':
        pairs = case[1]

        def f(r):
            return '(%s, %s, %s, %s)' % (copt(r[0], cz), copt(r[1], cs),
                                         copt(r[2], lambda a: '(%s, %s)' % (csl(a[0]), csl(a[1]))), csets(r[3]))
        return ('pres_eqb rwp_eqb (to_pres (rwp_from_request %s %s %s %s)) %s'
                % (csl(values_of(pairs, 'limit')), csl(values_of(pairs, 'group_policy')),
                   csl(values_of(pairs, 'root_required')), csl(values_of(pairs, 'same_subtree')), cpres(out, f)))
    if kind == 'key':
        return ('opt_eqb (pair_eqb Z.eqb str_eqb) (qs_key_match %s %s) %s'
                % (cb(case[1]), cs(case[2]), copt(out[1], lambda r: '(%d, %s)' % (r[0], cs(r[1])))))
    raise ValueError(kind)


PRELUDE = '''From Coq Require Import ZArith List Bool.
From PV Require Import Model.Parse.
Import ListNotations.
Open Scope Z_scope.
Definition r_eqb {A} (eqb : A -> A -> bool) (a b : R A) : bool :=
  match a, b with
  | Ret x, Ret y => eqb x y
  | Raise e, Raise f => exn_eqb e f
  | _, _ => false
  end.
'''


def run_coq_flags(path, n, timeout=1500):
    p = subprocess.run(['coqc', '-Q', COQDIR, 'PV', path], capture_output=True, text=True, timeout=timeout,
                       cwd=os.path.dirname(path))
    if p.returncode != 0:
        raise RuntimeError('coqc failed on %s:\n%s\n%s' % (path, p.stdout[-2000:], p.stderr[-4000:]))
    m = re.search(r'=\s*\[(.*?)\]\s*:\s*list Z', p.stdout, re.S)
    if not m:
        raise RuntimeError('cannot parse coqc output: %s' % p.stdout[-2000:])
    vals = [int(x.strip()) for x in m.group(1).split(';') if x.strip()]
    assert len(vals) == n, (len(vals), n)
    return vals


def check_with_model(cases, outs, tag):
    """-> indices of the cases on which model and implementation disagree"""
    os.makedirs(WORK, exist_ok=True)
    bad = []
    for k in range(0, len(cases), SHARD):
        part = list(zip(cases[k:k + SHARD], outs[k:k + SHARD]))
        path = os.path.join(WORK, 'cases_%s_%d.v' % (tag, k))
        with open(path, 'w') as f:
            f.write(PRELUDE)
            # one definition per case: elaborating a single 200 kB list literal is an order of magnitude slower
            for i, (c, o) in enumerate(part):
                f.write('Definition f%d : bool := %s.\n' % (i, coq_flag(c, o)))
            f.write('Definition flags : list Z := [\n')
            f.write(';\n'.join('(if f%d then 1 else 0)' % i for i in range(len(part))))
            f.write('].\nEval vm_compute in flags.\n')
        vals = run_coq_flags(path, len(part))
        failed = [k + i for i, v in enumerate(vals) if v != 1]
        bad.extend(failed)
        if not failed:
            for ext in ('.v', '.vo', '.vok', '.vos', '.glob'):
                try:
                    os.remove(path[:-2] + ext)
                except OSError:
                    pass
            try:
                os.remove(os.path.join(WORK, '.cases_%s_%d.aux' % (tag, k)))
            except OSError:
                pass
    return bad


# ------------------------------------------------------------------ generators
RC = ['VCPU', 'MEMORY_MB', 'DISK_GB', 'SRIOV_NET_VF', 'CUSTOM_FOO', 'CUSTOM_N1', 'PCI_DEVICE', 'IPV4_ADDRESS']
TRAITS = ['HW_CPU_X86_VMX', 'CUSTOM_MAGIC', 'STORAGE_DISK_SSD', 'CUSTOM_GOLD', 'COMPUTE_VOLUME_MULTI_ATTACH',
          'MISC_SHARES_VIA_AGGREGATE', 'CUSTOM_A', 'T']
CONTROL = list(range(0, 32)) + [127, 133, 0x9F]
ODD = [0xB2, 0xBD, 0x2167, 0x66B, 0x212A, 0x130, 0x3A3, 0x301, 0x200B, 0x200D, 0xFEFF, 0xFFFD, 0xFFFF, 0x10000,
       0x1F600, 0x1D7D8, 0x10FFFF, 0xFF0B, 0x2212, 0xFF1A, 0xFF0C, 0xFF01, 0x2160, 0x3007, 0x4E00, 0x96F6, 0xE0031,
       0xFF21, 0xFF41, 0x7B, 0x7D, 0x25, 0x26, 0x3D, 0x2B, 0x23, 0x3F, 0x2F, 0x5C, 0x22, 0x27]
SEPS = [ord(c) for c in ',:!_-+ ']


def rchar(rng):
    r = rng.random()
    if r < 0.2:
        return chr(rng.choice(CONTROL))
    if r < 0.4:
        return chr(rng.choice(ODD))
    if r < 0.55:
        return chr(rng.choice(SPACES))
    if r < 0.7:
        return chr(rng.choice(SEPS))
    if r < 0.8:
        return chr(rng.choice(ND_ZEROS) + rng.randint(0, 9))
    if r < 0.9:
        return chr(rng.randint(32, 126))
    c = rng.randint(0x80, 0x10FFFF)
    while 0xD800 <= c <= 0xDFFF:
        c = rng.randint(0x80, 0x10FFFF)
    return chr(c)


def mutate(rng, s, extra=''):
    """one to three edits: insert / delete / replace / duplicate / transpose a character or a run"""
    for _ in range(rng.choice([1, 1, 1, 2, 3])):
        r = rng.random()
        i = rng.randint(0, len(s))
        if r < 0.35:
            c = rng.choice(extra) if extra and rng.random() < 0.4 else rchar(rng)
            s = s[:i] + c + s[i:]
        elif r < 0.5 and s:
            i = min(i, len(s) - 1)
            s = s[:i] + s[i + 1:]
        elif r < 0.65 and s:
            i = min(i, len(s) - 1)
            s = s[:i] + (rng.choice(extra) if extra and rng.random() < 0.4 else rchar(rng)) + s[i + 1:]
        elif r < 0.8 and s:
            i = min(i, len(s) - 1)
            s = s[:i] + s[i] * rng.choice([2, 2, 3]) + s[i + 1:]
        elif r < 0.9 and len(s) > 1:
            i = min(i, len(s) - 2)
            s = s[:i] + s[i + 1] + s[i] + s[i + 2:]
        else:
            j = rng.randint(i, len(s))
            s = s[:i] + s[j:]
    return s


def ws(rng, pool=None):
    pool = pool or SPACES
    return ''.join(chr(rng.choice(pool)) for _ in range(rng.choice([0, 0, 1, 1, 2, 3])))


def digits_str(rng, n, block=None):
    """decimal digits of n >= 0 written in one Nd block, or mixing blocks"""
    ds = str(n)
    mode = rng.random()
    if block is None:
        if mode < 0.55:
            block = 48
        elif mode < 0.8:
            block = rng.choice(MAIN_BLOCKS)
        elif mode < 0.9:
            block = rng.choice(ND_ZEROS)
    if block is not None:
        return ''.join(chr(block + int(d)) for d in ds)
    return ''.join(chr(rng.choice(MAIN_BLOCKS + [rng.choice(ND_ZEROS)]) + int(d)) for d in ds)


INTERESTING = [0, 1, 2, 7, 10, 64, 1024, MAX_INT - 1, MAX_INT, MAX_INT + 1, 2 ** 31, 2 ** 32, 2 ** 63 - 1, 2 ** 63,
               2 ** 64, 10 ** 20, 99999999999999999999]


def gen_number(rng, valid_bias=0.5):
    """text that int() may or may not accept"""
    r = rng.random()
    if r < 0.02:
        # around the 4300 digit limit of int()
        n = rng.choice([4299, 4300, 4301, 4302, 4400])
        body = ''.join(rng.choice('0123456789') for _ in range(n))
        if rng.random() < 0.5:
            body = '0' * (n - 1) + rng.choice('0123456789')
        if rng.random() < 0.3:
            body = '_'.join(body[i:i + 100] for i in range(0, n, 100))
        return ws(rng, INT_SPACES) + body
    if r < 0.35:
        n = rng.choice(INTERESTING)
    elif r < 0.8:
        n = rng.randint(0, 10 ** rng.choice([1, 2, 3, 6, 9, 10, 12, 25, 60]))
    else:
        n = rng.randint(1, 100000)
    s = digits_str(rng, n)
    if rng.random() < 0.15:
        s = rng.choice(['0', '00', '000']) + s if rng.random() < 0.7 else digits_str(rng, 0) + s
    if rng.random() < 0.2 and len(s) > 1:
        k = rng.randint(1, len(s) - 1)
        s = s[:k] + rng.choice(['_', '_', '__', '_' + ws(rng)]) + s[k:]
    if rng.random() < 0.06:
        s = rng.choice(['_' + s, s + '_'])
    if rng.random() < 0.25:
        s = rng.choice(['+', '-', '+', '-', '\uff0b', '\u2212', '+-', '--', '+ ', '- ']) + s
    if rng.random() < 0.3:
        s = ws(rng) + s
    if rng.random() < 0.3:
        s = s + ws(rng)
    if rng.random() > valid_bias and rng.random() < 0.5:
        s = mutate(rng, s, '_+- 0\u0661\x1c\xb2')
    return s


def gen_amount(rng):
    """mostly amounts the parser accepts, written in every way int() reads"""
    if rng.random() < 0.35:
        return gen_number(rng, 0.8)
    n = rng.choice([1, 1, 2, 64, 1024, MAX_INT, MAX_INT - 1, rng.randint(1, 100000), rng.randint(1, MAX_INT)])
    s = digits_str(rng, n)
    if rng.random() < 0.1:
        s = '0' * rng.randint(1, 3) + s
    if rng.random() < 0.1 and len(s) > 1:
        k = rng.randint(1, len(s) - 1)
        s = s[:k] + '_' + s[k:]
    if rng.random() < 0.1:
        s = '+' + s
    if rng.random() < 0.15:
        s = ws(rng, INT_SPACES) + s + ws(rng, INT_SPACES)
    return s


def gen_name(rng, pool):
    r = rng.random()
    if r < 0.7:
        return rng.choice(pool)
    if r < 0.85:
        return 'CUSTOM_' + ''.join(rng.choice('ABCXYZ019_') for _ in range(rng.randint(1, 12)))
    if r < 0.93:
        return mutate(rng, rng.choice(pool))
    return rng.choice(['', ' ', '!', '!!', 'in:', '\n', '\x00', '\U0001f600'])


def gen_resources(rng):
    n = rng.choice([1, 1, 2, 2, 3, 5])
    pieces = []
    for _ in range(n):
        nm = gen_name(rng, RC)
        sep = ':' if rng.random() < 0.93 else rng.choice(['', '::', ' : ', '=', '\uff1a', ':,'])
        pieces.append(nm + sep + gen_amount(rng))
    if rng.random() < 0.15 and pieces:
        pieces.append(rng.choice(pieces))        # the same class twice: the later amount wins
    s = rng.choice([',', ',', ',', ',', ',,', ', ', ';', '\uff0c']).join(pieces)
    r = rng.random()
    if r < 0.1:
        s = rng.choice([s + ',', ',' + s, ws(rng) + s, s + ws(rng)])
    elif r < 0.22:
        s = mutate(rng, s, ',:_+- 0')
    elif r < 0.26:
        s = rng.choice(['', ' ', ws(rng), ',', ':', ':1', 'VCPU', 'VCPU:', ':,:', '\x00', 'VCPU:1:2', ws(rng) + ','])
    return s


def gen_traits_value(rng):
    n = rng.choice([1, 1, 2, 3, 4])
    items = []
    for _ in range(n):
        t = gen_name(rng, TRAITS)
        r = rng.random()
        if r < 0.25:
            t = '!' + t
        elif r < 0.3:
            t = rng.choice(['!!', '!!!', '! ', ' !']) + t
        if rng.random() < 0.2:
            t = ws(rng) + t + ws(rng)
        items.append(t)
    if rng.random() < 0.15:
        items.append(rng.choice(items))
    if rng.random() < 0.1 and len(items) > 1:
        # a trait both required and forbidden
        items.append('!' + items[0].lstrip('!'))
    s = rng.choice([',', ',', ',', ', ', ',,']).join(items)
    r = rng.random()
    if r < 0.3:
        s = rng.choice(['in:', 'in:', 'in: ', 'IN:', ' in:', 'in', '!in:', 'in:in:']) + s
    r = rng.random()
    if r < 0.15:
        s = mutate(rng, s, ',! in:')
    elif r < 0.2:
        s = rng.choice(['', ' ', ',', '!', 'in:', 'in:,', '!,', ',!', 'in:!', '!!', ws(rng)])
    return s


def gen_uuid(rng, good=False):
    import uuid
    u = str(uuid.UUID(int=rng.getrandbits(128)))
    r = rng.random() * (0.65 if good else 1.0)
    if r < 0.45:
        return u
    if r < 0.5:
        return u.upper()
    if r < 0.55:
        return u.replace('-', '')
    if r < 0.6:
        return '{' + u + '}'
    if r < 0.65:
        return rng.choice(['urn:uuid:', 'urn:', 'uuid:', 'URN:UUID:', 'ururn:n:', 'uuuid:uid:', 'urn:urn:']) + u
    if r < 0.7:
        return rng.choice(['{{', '}', '{', '-', '--{']) + u + rng.choice(['}}', '{', '}', '-', ''])
    if r < 0.74:
        k = rng.randint(0, len(u))
        return u[:k] + rng.choice(['-', '--', 'urn:', 'uuid:', '{', '}']) + u[k:]
    if r < 0.78:
        h = u.replace('-', '')
        return rng.choice([h[:31], h + 'a', h[:30], '0x' + h[:30], '+' + h[:31], h[:31] + ' ', ' ' + h[:31],
                           h[:15] + '_' + h[15:31], '-' + h, h[:31] + 'g', h[:31] + '\uff11'])
    if r < 0.82:
        return ''.join(digits_str(rng, int(c), rng.choice(MAIN_BLOCKS)) if c.isdigit() and rng.random() < 0.3 else c
                       for c in u)
    if r < 0.86:
        return ws(rng) + u + ws(rng)
    if r < 0.96:
        return mutate(rng, u, '-{}urn:uuid:0aF')
    return rng.choice(['', ' ', '-', '{}', 'urn:', 'not-a-uuid', '\x00', '0' * 32, '-' * 32, 'f' * 33])


def gen_member_of_value(rng):
    n = rng.choice([1, 1, 1, 2, 3])
    good = rng.random() < 0.5
    us = [gen_uuid(rng, good) for _ in range(n)]
    if rng.random() < 0.1:
        us.append(rng.choice(us))
    s = ','.join(us)
    r = rng.random()
    if n > 1 and r < 0.8:
        s = rng.choice(['in:', 'in:', '!in:']) + s
    elif r < 0.5:
        s = rng.choice(['in:', '!in:', '!', '!', '!!', 'in: ', ' in:', '!in', 'IN:', 'in:!']) + s
    r = rng.random()
    if r < 0.12:
        s = mutate(rng, s, ',!in:')
    elif r < 0.15:
        s = rng.choice(['', ',', 'in:', '!in:', '!', 'in:,', '!in:,', ws(rng)])
    return s


def gen_suffix(rng):
    r = rng.random()
    if r < 0.3:
        return ''
    if r < 0.6:
        return str(rng.randint(1, 30))
    return rng.choice(['_A', 'X', '_COMPUTE', '-net', '0', '01', 'a' * 64])


def noise_pairs(rng):
    out = []
    for _ in range(rng.choice([0, 0, 1, 2])):
        out.append((rng.choice(['resources', 'required9', 'member_of9', 'in_tree', 'limit2', 'x', 'required\n', '']),
                    rng.choice(['VCPU:1', 'T', '', '\x00', '\U0001f600'])))
    return out


def gen_key(rng):
    p = rng.choice(['resources', 'required', 'member_of', 'in_tree', 'resource', 'requiredd', 'limit', 'Resources', ''])
    r = rng.random()
    if r < 0.2:
        s = ''
    elif r < 0.45:
        s = str(rng.randint(0, 200))
    elif r < 0.7:
        s = ''.join(rng.choice('abcXYZ019_-') for _ in range(rng.choice([1, 2, 5, 63, 64, 65, 66, 100])))
    elif r < 0.8:
        s = digits_str(rng, rng.randint(1, 99), rng.choice(MAIN_BLOCKS))
    else:
        s = mutate(rng, str(rng.randint(1, 99)))
    k = p + s
    r = rng.random()
    if r < 0.12:
        k += rng.choice(['\n', '\n\n', '\r', '\r\n', ' ', '\x00', '\x0b', '\u2028'])
    elif r < 0.2:
        k = mutate(rng, k, '\n_-09az')
    elif r < 0.23:
        k = rng.choice(['\n', ' ']) + k
    return k


KINDS = [('resources', 22), ('int', 12), ('traits', 10), ('legacy', 4), ('traits_params', 6), ('member_of', 9),
         ('member_of_params', 6), ('uuid', 6), ('in_tree', 5), ('rwp', 10), ('key', 4), ('strip', 2), ('split', 2),
         ('lstrip', 1), ('replace', 1)]


def gen_case(rng):
    kind = rng.choices([k for k, _ in KINDS], [w for _, w in KINDS])[0]
    if kind == 'int':
        return ('int', gen_number(rng, 0.4))
    if kind == 'strip':
        return ('strip', ws(rng) + mutate(rng, rng.choice(TRAITS + ['', ' '])) + ws(rng))
    if kind == 'split':
        c = rng.choice([44, 58])
        return ('split', c, rng.choice([gen_resources(rng), gen_traits_value(rng), chr(c) * rng.randint(0, 4)]))
    if kind == 'lstrip':
        return ('lstrip', '!' * rng.randint(0, 4) + mutate(rng, rng.choice(TRAITS), '!'))
    if kind == 'replace':
        return ('replace', rng.choice(['urn:', 'uuid:', '-']), gen_uuid(rng))
    if kind == 'uuid':
        return ('uuid', gen_uuid(rng))
    if kind == 'resources':
        return ('resources', gen_resources(rng))
    if kind == 'traits':
        return ('traits', gen_traits_value(rng), rng.random() < 0.6, rng.random() < 0.5)
    if kind == 'legacy':
        return ('legacy', gen_traits_value(rng), rng.random() < 0.6)
    if kind == 'traits_params':
        suffix = gen_suffix(rng)
        pairs = noise_pairs(rng)
        for _ in range(rng.choice([0, 1, 1, 2, 3])):
            pairs.insert(rng.randint(0, len(pairs)), ('required' + suffix, gen_traits_value(rng)))
        return ('traits_params', rng.choice([0, 10, 17, 21, 22, 25, 35, 38, 39]), suffix, pairs)
    if kind == 'member_of':
        return ('member_of', gen_member_of_value(rng))
    if kind == 'member_of_params':
        suffix = gen_suffix(rng)
        pairs = noise_pairs(rng)
        for _ in range(rng.choice([0, 1, 1, 2, 3])):
            pairs.insert(rng.randint(0, len(pairs)), ('member_of' + suffix, gen_member_of_value(rng)))
        return ('member_of_params', rng.choice([3, 21, 23, 24, 25, 31, 32, 33, 39]), suffix, pairs)
    if kind == 'in_tree':
        return ('in_tree', ws(rng) + gen_uuid(rng) + ws(rng) if rng.random() < 0.5 else gen_uuid(rng))
    if kind == 'rwp':
        pairs = noise_pairs(rng)
        for _ in range(rng.choice([0, 1, 1, 1, 2, 3])):
            pairs.append(('limit', gen_number(rng, 0.6)))
        for _ in range(rng.choice([0, 0, 1, 2])):
            pairs.append(('group_policy', rng.choice(['none', 'isolate', '', 'NONE', mutate(rng, 'isolate')])))
        for _ in range(rng.choice([0, 0, 1, 1, 2])):
            pairs.append(('root_required', gen_traits_value(rng)))
        for _ in range(rng.choice([0, 0, 1, 2])):
            ss = rng.choice([',', ',', ', ', ',,']).join(gen_suffix(rng) or '_Z' for _ in range(rng.randint(1, 4)))
            if rng.random() < 0.25:
                ss = mutate(rng, ss, ', _')
            pairs.append(('same_subtree', rng.choice([ss, ss, ss, '', ' ', ',', ws(rng) + ss + ws(rng)])))
        rng.shuffle(pairs)
        return ('rwp', pairs)
    if kind == 'key':
        return ('key', rng.random() < 0.5, gen_key(rng))
    raise ValueError(kind)


FIXED = [
    ('resources', 'VCPU:99999999999999999999'), ('resources', 'VCPU:2147483647'), ('resources', 'VCPU:2147483648'),
    ('resources', ':1'), ('resources', 'VCPU:1,VCPU:2'), ('resources', 'VCPU: 1_0 '), ('resources', 'VCPU:\u0661'),
    ('resources', 'VCPU:\xb2'), ('resources', 'VCPU:+1'), ('resources', 'VCPU:-0'), ('resources', 'VCPU:1\x1c'),
    ('resources', 'VCPU:' + '0' * 4300 + '1'), ('resources', 'VCPU:' + '0' * 4299 + '1'),
    # the largest texts int() reads: the 400 message formats the amount with %d
    ('resources', 'VCPU:' + '9' * 4300), ('resources', 'VCPU:-' + '9' * 4300), ('resources', 'VCPU:' + '9' * 4301),
    ('int', '\x1c1'), ('int', '\x1c\u0661'), ('int', '1_'), ('int', '_1'), ('int', '1__0'), ('int', '+'),
    ('int', ''), ('int', '\U0001d7ce'), ('int', '0' * 4301), ('int', '1' * 4300),
    ('rwp', [('limit', '0'), ('limit', '5')]), ('rwp', [('limit', '5'), ('limit', 'x')]),
    ('rwp', [('limit', ' \u0663 ')]), ('rwp', [('root_required', 'A,!A')]), ('rwp', [('root_required', 'in:A')]),
    ('rwp', [('root_required', 'A'), ('root_required', 'B')]), ('rwp', [('same_subtree', '_A,')]),
    ('rwp', [('root_required', '!!A,B')]),
    ('uuid', 'ururn:n:' + '0' * 32), ('uuid', '{' * 3 + 'a' * 32 + '}'), ('uuid', '0x' + 'a' * 30),
    ('key', False, 'resources1\n'), ('key', True, 'resources\n'), ('key', True, 'required' + 'a' * 65),
    ('key', False, 'resources\u0661'), ('key', False, 'member_of01'),
    ('member_of', '!in:'), ('member_of', 'in:' + '0' * 32 + ',' + '0' * 32),
    ('traits', '!!!!FOO', True, False), ('traits', 'in:A, A ,B', True, True), ('traits', '!', True, True),
]


def tuplify(case):
    """a case read back from a JSON replay file"""
    return tuple([tuple(x) if isinstance(x, list) and len(x) == 2 and isinstance(x[0], str) else x for x in y]
                 if isinstance(y, list) else y for y in case)


# ------------------------------------------------------------------ run
def run(seed, n, mutant=None, tag=None, check_tables=True):
    """-> (n_cases, disagreements, stats).  A disagreement is
    {'case': ..., 'implementation': outcome}; an escape of the real function that the model also
    predicts (PEscape) is NOT a disagreement but is listed under stats['escapes']."""
    rng = random.Random(seed)
    util = load_util(mutant)
    tables = builtin_table_checks() if check_tables else []
    cases = list(FIXED) + [gen_case(rng) for _ in range(max(0, n - len(FIXED)))]
    cases = cases[:max(n, 1)]
    outs = [call_real(c, util) for c in cases]
    stats = {'by_kind': {}, 'escapes': [], 'distinct_cases': len(set(json.dumps(c) for c in cases))}
    for c, o in zip(cases, outs):
        k = stats['by_kind'].setdefault(c[0], {'ok': 0, '400': 0, 'escape': 0, 'raise': 0})
        k[o[0]] += 1
        if c[0] in ('uuid', 'key') and o[0] == 'ok':
            # boolean / optional answers: how many were positive
            k['positive'] = k.get('positive', 0) + (1 if o[1] not in (False, None) else 0)
        if o[0] == 'escape' or (o[0] == 'raise' and o[1] != 'ValueError'):
            stats['escapes'].append({'case': c, 'exception': o[1]})
    bad = check_with_model(cases, outs, tag or ('%s_%s' % (seed, mutant or 'head')))
    disagreements = [{'case': cases[i], 'implementation': outs[i]} for i in bad]
    # a table of the model (digits, whitespace, hex) that is not the interpreter's is a disagreement too
    disagreements += [{'case': ('table',) + tuple(t), 'implementation': ('interpreter differs',)} for t in tables[:20]]
    stats['table_discrepancies'] = len(tables)
    return len(cases), disagreements, stats


def main(argv):
    seed, n = int(argv[1]), int(argv[2])
    mutant = argv[argv.index('--mutant') + 1] if '--mutant' in argv else None
    ncases, dis, stats = run(seed, n, mutant)
    print('builtin tables of the model vs this interpreter (all code points): %d discrepancies'
          % stats['table_discrepancies'])
    print('seed %d mutant %s: %d cases (%d distinct), %d disagreements, %d escapes of the implementation'
          % (seed, mutant, ncases, stats['distinct_cases'], len(dis), len(stats['escapes'])))
    for k in sorted(stats['by_kind']):
        print('  %-17s %s' % (k, stats['by_kind'][k]))
    for d in dis[:8]:
        print('  DISAGREE %r -> %r' % (d['case'], d['implementation']))
    for e in stats['escapes'][:8]:
        print('  ESCAPE   %r -> %s' % (e['case'], e['exception']))
    return 1 if dis or stats['escapes'] else 0


if __name__ == '__main__':
    sys.exit(main(sys.argv))
