"""C18 on RACED requests: a request A is overtaken by another client's write B at a place where that sends A down its conflict /
retry / fall-back path (two database connections, deterministic schedule: harness/sched.py), and the process serving A dies
before each of A's statements on that path.  The surviving state must be the state after B alone or after A and B completed
under the same schedule; nothing may dangle and the provider hierarchy must be a forest.

    PYTHONPATH=/repo:/verif PYTHONHASHSEED=0 /venv/bin/python -m harness.raced_crash [--json]
"""
import json
import sys

from harness import conc
from harness import ops
from harness import oracles
from harness.checks_conc import inv, cons

HEAVY = (0, 1, 2, 7, 8, 9, 10, 11)
SETUP = [('rp_create', 39, 1, 1, None), ('inv_set', 39, 1, 0, [inv(0, 8), inv(2, 100), inv(1, 64)]),
         ('rp_create', 39, 2, 2, 1), ('inv_set', 39, 2, 0, [inv(0, 8)]),
         ('traits_set', 39, 1, 1, [0]), ('aggs_set', 39, 1, 2, [1]),
         ('alloc_put', 39, cons(2, None, [(2, [(0, 1)])])), ('rp_create', 39, 3, 3, None),
         ('inv_set', 39, 3, 0, [inv(0, 4), inv(1, 32), inv(2, 10)])]
# generations: rp1 = 3, rp2 = 2, rp3 = 1
SCENARIOS = [
    ('delete-all-inventories overtaken by traits', [('inv_delete_all', 39, 3), ('traits_set', 39, 3, 1, [1])]),
    ('put-inventories overtaken by aggregates', [('inv_set', 39, 3, 1, [inv(0, 16)]), ('aggs_set', 39, 3, 1, [2])]),
    ('claim over two providers overtaken by inventory-put on the second',
     [('alloc_put', 39, cons(3, None, [(1, [(0, 2)]), (2, [(0, 1)])])), ('inv_put', 39, 2, 2, inv(0, 16))]),
    ('post-move overtaken by traits', [('alloc_post', 39, [cons(2, 1, []), cons(4, None, [(1, [(0, 1)])])]), ('traits_set', 39, 1, 3, [1, 2])]),
    ('delete-traits overtaken by inventory-put', [('traits_delete', 39, 1), ('inv_put', 39, 1, 3, inv(0, 16))]),
    ('post-inventory overtaken by traits', [('inv_post', 39, 2, inv(2, 50)), ('traits_set', 39, 2, 2, [1])]),
]


def run(max_schedules=4):
    conc.init_engine()
    points = 0
    bad = []
    for name, reqs in SCENARIOS:
        scn = conc.Scenario(name, SETUP, reqs, [])
        # the state after B alone
        obs_b, only_b = conc.run_serial(scn, [1])
        seen = set()
        n_s = 0
        for sch in conc.gap_schedules(scn, k_max=6):
            scn.crash = None
            obs, complete, trace, used = conc.run_schedule(scn, sch)
            if tuple(used) in seen:
                continue
            seen.add(tuple(used))
            if 1 not in used or used.index(1) == 0 and all(u == 1 for u in used[:used.count(1)]) and False:
                continue
            n_s += 1
            # count A's statements under this schedule
            scn.crash = (0, 10 ** 6)
            conc.run_schedule(scn, list(used))
            n_a = scn.statements_seen
            for k in range(n_a):
                scn.crash = (0, k)
                obs_k, dump_k, _t, _u = conc.run_schedule(scn, list(used))
                points += 1
                ha = [dump_k[i] for i in HEAVY]
                msgs = []
                if ha != [only_b[i] for i in HEAVY] and ha != [complete[i] for i in HEAVY]:
                    start = conc.run_serial(scn, [])[1]
                    if ha != [start[i] for i in HEAVY]:
                        msgs.append('partial effect: providers/inventories/allocations/associations are neither as after the overtaking '
                                    'request alone nor as after both requests completed')
                for m in oracles.c08(('noop',), (200, 0, -1), dump_k, dump_k):
                    if 'has no consumer record' in m or 'dangles' in m or 'missing' in m or 'no inventory' in m or 'refers to no provider' in m:
                        msgs.append('after crash: ' + m)
                for m in oracles.c09(('noop',), (200, 0, -1), dump_k, dump_k):
                    msgs.append('after crash: ' + m)
                if msgs:
                    bad.append({'scenario': name, 'requests': [list(map(str, r[:2])) for r in reqs], 'schedule': list(used), 'crash_before_statement': k,
                                'statements_of_the_request': n_a, 'statuses_when_complete': [o[0] for o in obs], 'text': msgs[0]})
                    break
            scn.crash = None
            if n_s >= max_schedules or (bad and bad[-1]['scenario'] == name):
                break
    return points, bad


if __name__ == '__main__':
    n, bad = run()
    if len(sys.argv) > 1 and sys.argv[1] == '--json':
        json.dump({'points': n, 'problems': bad}, sys.stdout)
        sys.exit(0)
    for b in bad:
        print(json.dumps(b)[:600])
    print('%d crash points on raced requests, %d problems' % (n, len(bad)))
    sys.exit(1 if bad else 0)
