"""C11 differential: after every request of a generated history, issue the read requests of the API for
every provider / consumer / project token of the generator's pools on the real service, canonicalise
the JSON bodies and compare them with the views of coq/Model/Reads.v evaluated inside Coq on the model
state `run cf db0 <requests so far>`.

    python -m harness.reads SEED N_HIST N_OPS [PROFILE]
"""
import os
import random
import re
import subprocess
import sys
import tempfile
import time

from harness import gen
from harness import hist
from harness import ops

COQDIR = os.path.join(os.path.dirname(os.path.dirname(os.path.abspath(__file__))), 'coq')

RC_TOKENS = sorted(set(gen.RCS)) + [1002]
PROJECTS = [0, 1, 2, 9]           # 0 = the incomplete-consumer placeholder, 9 = never used
USERS = [None, 0, 1, 2]
CT_ALL, CT_UNKNOWN = -2, -1
CTYPES = [None, CT_ALL, CT_UNKNOWN, 1, 2, 7]
# traits / classes asked for by name: the generator's pools (gen.TRAITS, the names gen.gen_op creates, renames and
# deletes) plus names nothing ever creates (CUSTOM_T9, CUSTOM_N9, a standard-looking unknown name)
T_UNKNOWN = ops.trait_tok('HW_NO_SUCH_TRAIT')
TRAIT_TOKENS = [0, 2, 3, 5, 100001, 100002, 100003, 100004, 100009, T_UNKNOWN]
TRAIT_NAME_LISTS = [[0, 100001], [100001, 100002, 100003, 100004], [1, 2, 3, 5, 100002, 100009, T_UNKNOWN], []]
C_UNKNOWN = ops.rc_tok('NO_SUCH_CLASS')
CLASS_TOKENS = [0, 1, 5, 1000, 1001, 1002, 1003, 1009, C_UNKNOWN]


# ------------------------------------------------------------------ queries
def rcid_in(rcmap, tok):
    """resource class NAME token -> id in the current state (-1: no such class)"""
    if 0 <= tok < len(ops.STD_RC):
        return tok
    return rcmap.get(tok, -1)


def _tname(t):
    return 'HW_NO_SUCH_TRAIT' if t == T_UNKNOWN else ops.trait_name(t)


def _cname(n):
    return 'NO_SUCH_CLASS' if n == C_UNKNOWN else ops.rc_name(n)


def name_queries():
    """the class and trait reads (48 per state): GET /traits with and without `name=in:` / `associated`, GET /traits/{name},
    GET /resource_classes, GET /resource_classes/{name}; versions on both sides of 1.2 (classes), 1.6 (traits), 1.7 (PUT of a
    class changes meaning there; reads must not)"""
    out = []

    def traits(names, assoc, v):
        qs = []
        if names is not None:
            qs.append('name=in:' + ','.join(_tname(t) for t in names))
        if assoc is not None:
            qs.append('associated=' + ('true' if assoc else 'false'))
        term = '(QTraits %s %s)' % ('None' if names is None else '(Some %s)' % ops.lst(ops.z(t) for t in names),
                                    'None' if assoc is None else '(Some %s)' % ('true' if assoc else 'false'))
        out.append((term, v, '/traits' + ('?' + '&'.join(qs) if qs else '')))

    for v in (5, 6, 39):
        traits(None, None, v)
    for assoc in (True, False):
        for v in (6, 39):
            traits(None, assoc, v)
    for names in TRAIT_NAME_LISTS:
        for assoc in (None, True, False):
            traits(names, assoc, 39)
    traits(TRAIT_NAME_LISTS[0], True, 5)                                          # 404 below 1.6 whatever the filter
    for t in TRAIT_TOKENS:
        out.append(('(QTrait %d)' % t, 39, '/traits/' + _tname(t)))
    out.append(('(QTrait 0)', 5, '/traits/' + _tname(0)))
    out.append(('(QTrait 100001)', 6, '/traits/' + _tname(100001)))
    for v in (1, 2, 6, 7, 39):
        out.append(('QClasses', v, '/resource_classes'))
    for n in CLASS_TOKENS:
        out.append(('(QClass %d)' % n, 39, '/resource_classes/' + _cname(n)))
    for n, v in ((0, 1), (1000, 1), (0, 2), (1000, 2), (1001, 6), (1001, 7)):
        out.append(('(QClass %d)' % n, v, '/resource_classes/' + _cname(n)))
    return out


def queries(rcmap):
    """-> list of (coq query term, version, http path); the versions sit on both sides of every
    microversion at which the representation changes (1.1, 1.2, 1.6, 1.9, 1.12, 1.14, 1.19, 1.28, 1.38)"""
    out = name_queries()
    for u in range(1, gen.N_RP + 1):
        base = '/resource_providers/%s' % ops.uuid_of(u)
        for v in (0, 13, 14, 39):
            out.append(('(QRp %d)' % u, v, base))
        for v in (0, 39):
            out.append(('(QInvs %d)' % u, v, base + '/inventories'))
        for tok in RC_TOKENS:
            out.append(('(QInv %d %s)' % (u, ops.z(rcid_in(rcmap, tok))), 0,
                        base + '/inventories/' + ops.rc_name(tok)))
        out.append(('(QRpUsages %d)' % u, 0, base + '/usages'))
        for v in (0, 27, 28, 39):
            out.append(('(QRpAllocs %d)' % u, v, base + '/allocations'))
        for v in (0, 5, 6, 12, 39):
            out.append(('(QRpTraits %d)' % u, v, base + '/traits'))
        for v in (0, 1, 18, 19, 39):
            out.append(('(QRpAggs %d)' % u, v, base + '/aggregates'))
    for c in range(1, gen.N_CONS + 2):
        for v in (0, 11, 12, 27, 28, 37, 38, 39):
            out.append(('(QConsAllocs %d)' % c, v, '/allocations/' + ops.uuid_of(c, ops.K_CONS)))
    for p in PROJECTS:
        for w in USERS:
            path = '/usages?project_id=' + ops.proj_name(p)
            if w is not None:
                path += '&user_id=' + ops.user_name(w)
            q = lambda ct: '(QUsages %d %s %s)' % (p, ops.oz(w), ops.oz(ct))     # noqa: E731
            if p == 1 and w is None:
                out.append((q(None), 0, path))                                   # 404 below 1.9
                out.append((q(None), 8, path))
                out.append((q(None), 9, path))
                out.append((q(1), 12, path + '&consumer_type=TYPE1'))            # 400 below 1.38
                out.append((q(CT_ALL), 37, path + '&consumer_type=all'))
            out.append((q(None), 12, path))
            out.append((q(None), 37, path))
            for ct in CTYPES:
                name = {None: None, CT_ALL: 'all', CT_UNKNOWN: 'unknown'}.get(ct, 'TYPE%s' % ct)
                out.append((q(ct), 38, path + ('&consumer_type=' + name if name else '')))
            out.append((q(None), 39, path))
    return out


# ------------------------------------------------------------------ canonical payloads
def _rcid(rcmap, name):
    return rcid_in(rcmap, ops.rc_tok(name))


def _ct_tok(name):
    if name == 'all':
        return CT_ALL
    if name == 'unknown':
        return CT_UNKNOWN
    return ops.tok_of_name(name, 'TYPE')


def _inv_fields(b):
    m, e = ops.ratio_me(b['allocation_ratio'])
    return [b['total'], b['reserved'], b['min_unit'], b['max_unit'], b['step_size'], m, e]


def _kind(q):
    """constructor name of a query term"""
    return q.strip('()').split()[0]


def canon(q, r, rcmap):
    """(status, hdr, rows) of a response to query term q"""
    if r.status != 200:
        return (r.status, [], [])
    j = r.json
    kind = _kind(q)
    # class and trait listings are compared COMPLETELY: every standard name is a token of the model (ops.STD_TRAITS /
    # ops.STD_RC index = token below n_std_traits / n_std_rc of Gen/GenConsts.v), custom names of the pools map to their
    # token and any other name to a hash token >= 10^7 that the model never lists - so nothing is restricted away; the
    # long runs of consecutive standard tokens are only *printed* as ranges (view_coq / rng_rows)
    if kind == 'QTraits':
        return (200, [], sorted([ops.trait_tok(t)] for t in j['traits']))
    if kind == 'QClasses':
        return (200, [], sorted([ops.rc_tok(x['name'])] for x in j['resource_classes']))
    if kind == 'QClass':
        return (200, [ops.rc_tok(j['name'])], [])
    if kind == 'QRp':
        hdr = [ops.tok_of_name(j['name'], 'rp'), j['generation']]
        if 'parent_provider_uuid' in j or 'root_provider_uuid' in j:
            p = j['parent_provider_uuid']
            hdr += [-1 if p is None else ops.tok_of_uuid(p), ops.tok_of_uuid(j['root_provider_uuid'])]
        return (200, hdr, [])
    if kind == 'QInvs':
        rows = [[_rcid(rcmap, n)] + _inv_fields(b) for n, b in j['inventories'].items()]
        return (200, [j['resource_provider_generation']], sorted(rows))
    if kind == 'QInv':
        return (200, [j.get('resource_provider_generation', -1)] + _inv_fields(j), [])
    if kind == 'QRpUsages':
        return (200, [j['resource_provider_generation']],
                sorted([_rcid(rcmap, n), x] for n, x in j['usages'].items()))
    if kind == 'QRpAllocs':
        rows = []
        for c, dd in j['allocations'].items():
            for n, x in dd['resources'].items():
                rows.append([ops.tok_of_uuid(c), _rcid(rcmap, n), x] +
                            ([dd['consumer_generation']] if 'consumer_generation' in dd else []))
        return (200, [j['resource_provider_generation']], sorted(rows))
    if kind == 'QRpTraits':
        return (200, [j['resource_provider_generation']], sorted([ops.trait_tok(t)] for t in j['traits']))
    if kind == 'QRpAggs':
        hdr = [j['resource_provider_generation']] if 'resource_provider_generation' in j else []
        return (200, hdr, sorted([ops.tok_of_uuid(a)] for a in j['aggregates']))
    if kind == 'QConsAllocs':
        rows = []
        for u, dd in j['allocations'].items():
            for n, x in dd['resources'].items():
                rows.append([ops.tok_of_uuid(u), dd['generation'], _rcid(rcmap, n), x])
        hdr = []
        if 'project_id' in j:
            hdr.append(ops.tok_of_name(j['project_id'], 'proj'))
        if 'user_id' in j:
            hdr.append(ops.tok_of_name(j['user_id'], 'user'))
        if 'consumer_generation' in j:
            hdr.append(j['consumer_generation'])
        if 'consumer_type' in j:
            hdr.append(_ct_tok(j['consumer_type']))
        return (200, hdr, sorted(rows))
    if kind == 'QUsages':
        rows = []
        for k, x in j['usages'].items():
            if isinstance(x, dict):
                for n, y in x.items():
                    rows.append([_ct_tok(k), -1 if n == 'consumer_count' else _rcid(rcmap, n), y])
            else:
                rows.append([_rcid(rcmap, k), x])
        return (200, [], sorted(rows))
    raise ValueError(q)


def _ranges(xs):
    """sorted integers -> [(lo, hi)] of maximal runs of consecutive values (duplicates stay separate runs)"""
    out = []
    for x in xs:
        if out and x == out[-1][1] + 1:
            out[-1][1] = x
        else:
            out.append([x, x])
    return out


def view_coq(c):
    s, hdr, rows = c
    if len(rows) > 12 and all(len(row) == 1 for row in rows):
        # a listing of name tokens: runs of consecutive tokens as (lo, hi); Reads.rng_rows expands them again
        rows_term = '(rng_rows %s)' % ops.lst('(%s, %s)' % (ops.z(a), ops.z(b)) for a, b in _ranges([r[0] for r in rows]))
    else:
        rows_term = ops.lst(ops.lst(ops.z(x) for x in row) for row in rows)
    return '(mkView %s %s %s)' % (ops.z(s), ops.lst(ops.z(x) for x in hdr), rows_term)


# ------------------------------------------------------------------ running the implementation
def run_one(rng, n_ops, profile='default', op_list=None, only=None):
    """One generated history (or the given op list) on a fresh service (same loop as hist.run_history,
    with the reads issued after every request; only: prefixes of the query terms to issue, None = all).
    -> list of (op, rcmap_before, [(q, v, path, canon)])"""
    from harness import impl
    app = impl.App()
    steps = []
    dump = ops.canon_dump(app.raw_dump())
    rcmap = ops.rc_map(dump)
    for k in range(n_ops if op_list is None else len(op_list)):
        op = gen.gen_op(rng, dump, profile) if op_list is None else op_list[k]
        hist.observe(app, op)
        dump = ops.canon_dump(app.raw_dump())
        rcmap_before, rcmap = rcmap, ops.rc_map(dump)
        reads = []
        for q, v, path in queries(rcmap):
            if only is not None and not q.startswith(only):
                continue
            resp = app.request('GET', path, version=ops.ver(v), headers={'x-roles': 'admin,service'})
            reads.append((q, v, path, canon(q, resp, rcmap)))
        steps.append((op, rcmap_before, reads))
    app.close()
    return steps


# ------------------------------------------------------------------ the model side
def history_term(steps):
    items = []
    for op, rcmap, reads in steps:
        items.append('(%s, %s)' % (ops.op_coq(op, rcmap),
                                   ops.lst('(%s, %d, %s)' % (q, v, view_coq(c)) for q, v, _p, c in reads)))
    return ops.lst(items)


def _coqc(path, timeout=1800):
    p = subprocess.run(['coqc', '-Q', COQDIR, 'PV', path], capture_output=True, text=True, timeout=timeout,
                       cwd=os.path.dirname(path))
    if p.returncode != 0:
        raise RuntimeError('coqc failed on %s:\n%s\n%s' % (path, p.stdout[-2000:], p.stderr[-4000:]))
    return p.stdout


def _cleanup(path):
    for ext in ('.v', '.vo', '.vok', '.vos', '.glob'):
        try:
            os.remove(path[:-2] + ext)
        except OSError:
            pass
    try:
        os.remove(os.path.join(os.path.dirname(path), '.' + os.path.basename(path)[:-2] + '.aux'))
    except OSError:
        pass


def check_batch(batch, workdir, tag, cfg=(0, 0)):
    """batch: list of histories (lists of steps). -> list per history of [(step, read)] disagreements"""
    path = os.path.join(workdir, 'reads_%s.v' % tag)
    with open(path, 'w') as f:
        f.write('From PV Require Import Model.Reads.\n')
        f.write('Definition cf := mkCfg %d %d.\n' % cfg)
        f.write('Definition cases : list (list (req * list (query * Z * rview))) := [\n')
        f.write(';\n'.join(history_term(s) for s in batch))
        f.write('].\n')
        f.write('Definition results := map (fun h => check_reads cf db0 0 h) cases.\n')
        f.write('Eval vm_compute in results.\n')
    out = _coqc(path)
    m = re.search(r'=\s*(\[.*\])\s*:\s*list \(list \(Z \* Z\)\)', out, re.S)
    if not m:
        raise RuntimeError('cannot parse coqc output: %s' % out[-2000:])
    txt = m.group(1).replace('%Z', '').replace(';', ',')
    res = eval(txt, {'__builtins__': {}})        # nested lists of integer pairs printed by Coq
    assert len(res) == len(batch), (len(res), len(batch))
    _cleanup(path)
    return res


def model_view(steps, upto, q, v, workdir='/tmp', cfg=(0, 0)):
    """the model's view after step `upto` (for reports)"""
    path = os.path.join(workdir, 'reads_debug_%d.v' % os.getpid())
    with open(path, 'w') as f:
        f.write('From PV Require Import Model.Reads.\n')
        f.write('Definition cf := mkCfg %d %d.\n' % cfg)
        f.write('Eval vm_compute in (view %s %d (run cf db0 %s)).\n' % (
            q, v, ops.lst(ops.op_coq(op, rcmap) for op, rcmap, _r in steps[:upto + 1])))
    out = subprocess.run(['coqc', '-Q', COQDIR, 'PV', path], capture_output=True, text=True,
                         cwd=workdir)
    _cleanup(path)
    return re.sub(r'\s+', ' ', (out.stdout + out.stderr)).replace('%Z', '').strip()


def _inv(rc, total, **kw):
    i = {'rc': rc, 'total': total, 'reserved': 0, 'min': 1, 'max': ops.MAX_INT, 'step': 1, 'ratio': 1.0,
         '_omit': ()}
    i.update(kw)
    return i


def _cons(c, allocs, proj=None, user=None, gen=None, type=None):
    return {'uuid': c, 'allocs': allocs, 'proj': proj, 'user': user, 'gen': gen, 'type': type}


# hand-written histories: every kind of read gets non-trivial content (several classes per consumer,
# typed / untyped / placeholder consumers in one project, several consumers per provider, re-parenting,
# replaced inventories / traits / aggregates, deleted allocations, renamed custom class)
SCENARIOS = [
    [('rp_create', 39, 1, 1, None), ('rp_create', 39, 2, 2, 1), ('rp_create', 39, 3, 3, None),
     ('rc_create', 39, 1000),
     ('inv_set', 39, 1, 0, [_inv(0, 16, ratio=2.0), _inv(1, 100, reserved=10), _inv(2, 50, step=5, min=5)]),
     ('inv_set', 39, 2, 0, [_inv(0, 8), _inv(1000, 4)]),
     ('inv_post', 39, 3, _inv(0, 4)),
     ('traits_set', 39, 1, 1, [0, 3]), ('trait_put', 39, 100001), ('traits_set', 39, 2, 1, [100001, 2]),
     ('aggs_set', 39, 1, 2, [1, 2]), ('aggs_set', 12, 2, 0, [2, 3]), ('aggs_set', 19, 3, 1, [1]),
     ('alloc_put', 7, _cons(1, [(1, [(0, 2), (1, 10)])])),
     ('alloc_put', 38, _cons(2, [(1, [(0, 1)]), (2, [(0, 2), (1000, 1)])], proj=1, user=1, type=1)),
     ('alloc_put', 38, _cons(3, [(1, [(2, 5)])], proj=1, user=2, type=2)),
     ('alloc_put', 12, _cons(4, [(2, [(0, 1)])], proj=1, user=1)),
     ('alloc_post', 38, [_cons(5, [(3, [(0, 1)]), (1, [(1, 5)])], proj=1, user=1, type=1)]),
     ('rp_update', 39, 2, 2, 3), ('rp_update', 39, 3, 6, 'absent'),
     ('alloc_put', 28, _cons(2, [(2, [(0, 3)])], proj=2, user=1, gen=1)),
     ('alloc_delete', 1), ('alloc_put', 38, _cons(4, [], proj=1, user=1, gen=1, type=2)),
     ('traits_set', 39, 1, 7, [1]), ('aggs_set', 39, 1, 7, []), ('inv_delete', 1, 2),
     ('alloc_put', 38, _cons(3, [(1, [(0, 4)])], proj=2, user=2, gen=1, type=1)),
     ('rp_update', 39, 2, 2, None), ('rp_delete', 3), ('inv_set', 39, 3, 0, [])],
    [('rp_create', 0, 1, 1, None), ('inv_set', 0, 1, 0, [_inv(0, 10), _inv(1, 64)]),
     ('alloc_put', 0, _cons(1, [(1, [(0, 1), (1, 4)])])),
     ('alloc_put', 8, _cons(2, [(1, [(0, 2)])], proj=1, user=1)),
     ('alloc_put', 8, _cons(3, [(1, [(0, 2), (1, 8)])], proj=1, user=2)),
     ('alloc_post', 13, [_cons(1, [(1, [(0, 3)])], proj=2, user=2), _cons(4, [(1, [(1, 2)])], proj=1, user=1)]),
     ('rc_create', 7, 1001), ('inv_post', 7, 1, _inv(1001, 3)), ('rc_rename', 6, 1001, 1002),
     ('alloc_put', 39, _cons(5, [(1, [(1001, 1)])], proj=1, user=1, type=1)),
     ('alloc_put', 39, _cons(5, [(1, [(1002, 1), (0, 1)])], proj=1, user=1, type=1)),
     ('reshape', 39, [(1, 7, [_inv(0, 10), _inv(1, 64)])], [_cons(5, [(1, [(0, 2)])], proj=1, user=1, gen=1, type=2)]),
     ('alloc_delete', 2), ('alloc_delete', 2), ('inv_delete_all', 39, 1)],
    # classes and traits: created, associated with one / two providers, dissociated, deleted (refused while in use),
    # re-created; class renamed onto a fresh and onto an existing name, PUT at 1.7, deleted (refused while in use)
    [('trait_put', 5, 100001), ('trait_put', 6, 100001), ('trait_put', 39, 100001), ('trait_put', 39, 100002),
     ('trait_put', 39, 100004), ('trait_delete', 39, 100004), ('trait_delete', 39, 100004), ('trait_delete', 39, 2),
     ('rp_create', 39, 1, 1, None), ('rp_create', 39, 2, 2, None),
     ('traits_set', 39, 1, 0, [0, 100001]), ('traits_set', 39, 2, 0, [100001, 3, 100002]),
     ('trait_delete', 39, 100001), ('traits_set', 39, 1, 1, [5]), ('trait_delete', 39, 100001),
     ('traits_delete', 39, 2), ('trait_delete', 39, 100001), ('trait_put', 39, 100001), ('traits_set', 39, 2, 2, [100001]),
     ('rp_delete', 2), ('trait_delete', 39, 100001),
     ('rc_create', 1, 1000), ('rc_create', 2, 1000), ('rc_create', 39, 1000), ('rc_create', 39, 1001),
     ('rc_rename', 6, 1000, 1002), ('rc_rename', 4, 1001, 1002), ('rc_rename', 2, 1002, 1002), ('rc_rename', 7, 1003, 1000),
     ('rc_put', 6, 1000), ('rc_put', 7, 1000), ('rc_put', 39, 1000),
     ('inv_set', 39, 1, 2, [_inv(1001, 4), _inv(0, 2)]), ('rc_delete', 39, 1001), ('rc_delete', 39, 1002),
     ('rc_delete', 39, 0), ('inv_delete', 1, 1001), ('rc_delete', 39, 1001), ('rc_delete', 39, 1009), ('rc_create', 39, 1001)],
]


# the class / trait scenario is followed by the class and trait reads and the provider reads that mention them
SCENARIO_ONLY = {2: ('(QTrait', 'QClass', '(QClass', '(QRpTraits', '(QInvs')}


def run_scenarios():
    """-> (n_reads, disagreements) over the hand-written histories"""
    workdir = tempfile.mkdtemp(prefix='pvreads')
    batch = [run_one(None, 0, op_list=sc, only=SCENARIO_ONLY.get(i)) for i, sc in enumerate(SCENARIOS)]
    res = check_batch(batch, workdir, 'scen')
    bad = []
    for i, (steps, dis) in enumerate(zip(batch, res)):
        for (si, ri) in dis:
            q, v, path, c = steps[si][2][ri]
            bad.append({'seed': 'scenario', 'history': i, 'step': si, 'read': ri, 'query': q, 'version': v,
                        'path': path, 'impl': c, 'model': model_view(steps, si, q, v, workdir),
                        'ops': [s[0] for s in steps[:si + 1]]})
    COVER.update(_cover(batch))
    return sum(len(r) for steps in batch for _o, _m, r in steps), bad


def _cover(batch):
    """how many reads had content: (kind, status, has rows) -> count"""
    import collections
    c = collections.Counter()
    for steps in batch:
        for op, _m, rs in steps:
            for q, v, _p, cv in rs:
                c[(_kind(q), cv[0], bool(cv[2]))] += 1
    return c


import collections  # noqa: E402
COVER = collections.Counter()


def _work(args):
    """one batch of histories: run them on the service, evaluate the model, describe disagreements"""
    seed, idxs, n_ops, profiles = args
    workdir = tempfile.mkdtemp(prefix='pvreads')
    batch = []
    for i in idxs:
        rng = random.Random(seed * 1000003 + i)
        batch.append((i, run_one(rng, n_ops, profiles[i % len(profiles)])))
    n_reads = sum(len(r) for _i, steps in batch for _o, _m, r in steps)
    res = check_batch([s for _i, s in batch], workdir, '%d_%d' % (seed, idxs[0]))
    bad = []
    for (i, steps), dis in zip(batch, res):
        for (si, ri) in dis:
            q, v, path, c = steps[si][2][ri]
            bad.append({'seed': seed, 'history': i, 'step': si, 'read': ri, 'query': q, 'version': v,
                        'path': path, 'impl': c, 'model': model_view(steps, si, q, v, workdir),
                        'ops': [s[0] for s in steps[:si + 1]]})
    try:
        os.rmdir(workdir)
    except OSError:
        pass
    return n_reads, bad, _cover([s for _i, s in batch])


def run(seed, n_hist, n_ops, profile=None, batch=4, verbose=False, jobs=None):
    """-> (n_reads, disagreements); a disagreement is a dict with everything needed to replay it.
    History i of a seed uses random.Random(seed * 1000003 + i) and profile i mod #profiles."""
    import multiprocessing
    profiles = [profile] if profile else sorted(gen.PROFILES)
    jobs = jobs or int(os.environ.get('VERIF_JOBS', '8'))
    tasks = [(seed, list(range(k, min(k + batch, n_hist))), n_ops, profiles) for k in range(0, n_hist, batch)]
    n_reads, bad, t0, done = 0, [], time.time(), 0
    if jobs <= 1 or len(tasks) <= 1:
        results = map(_work, tasks)
    else:
        # fork before the service is imported: one engine (in-memory SQLite) per worker process
        pool = multiprocessing.get_context('fork').Pool(min(jobs, len(tasks)))
        results = pool.imap(_work, tasks)
    for n, b, cov in results:
        n_reads += n
        bad.extend(b)
        COVER.update(cov)
        done += 1
        if verbose:
            print('  %d/%d batches, %d reads, %d disagreements, %.0fs' % (done, len(tasks), n_reads, len(bad),
                                                                         time.time() - t0))
            sys.stdout.flush()
    if jobs > 1 and len(tasks) > 1:
        pool.close()
        pool.join()
    return n_reads, bad


def main(argv):
    seed, n_hist, n_ops = int(argv[1]), int(argv[2]), int(argv[3])
    profile = argv[4] if len(argv) > 4 else None
    n, bad = run(seed, n_hist, n_ops, profile, verbose=True)
    ns, bs = run_scenarios()
    print('C11 reads: scenarios=%d reads=%d disagreements=%d' % (len(SCENARIOS), ns, len(bs)))
    for k in sorted(COVER):
        print('  coverage %-12s status=%d rows=%-5s %d' % (k[0], k[1], k[2], COVER[k]))
    bad = bad + bs
    print('C11 reads: seed=%d histories=%d ops=%d reads=%d disagreements=%d' % (seed, n_hist, n_ops, n, len(bad)))
    for b in bad[:20]:
        print('DISAGREEMENT history=%(history)d step=%(step)d read=%(read)d %(query)s v=1.%(version)d %(path)s' % b)
        print('   impl : %r' % (b['impl'],))
        print('   model: %s' % b['model'])
        print('   last op: %r' % (b['ops'][-1],))
    return 1 if bad else 0


if __name__ == '__main__':
    sys.exit(main(sys.argv))
