"""C14, response members per microversion: the tie between the hand-written serialiser model Spec/RespFields.v:resp_members
(about which Props/C14.v proves C14_response_fields / C14_no_undocumented_response_member) and the running service.

For every operation (every documented route x method, and the error document) and every minor version at which it exists: one
real, successful request on a populated state; the set of member paths present in the JSON answer, the response headers of
interest and the status code must be exactly what resp_members gives for (route, method, version).  resp_members is evaluated
in Coq (one `Eval vm_compute in resp_table`) and parsed here; nothing of the model is re-implemented in Python.

Member paths: walk the JSON value; a key that is data (a uuid, or a name without lower-case letters: resource class, trait,
consumer type, request group suffix) is `*` and contributes the member `*` to its map; any other key is a member name; list
elements are `[]`; an object with `rel` and `href` contributes `rel=<value>`.  Members that exist only with data (traits,
mappings, allocations of a consumer, usages) exist because surface.setup_state populates them."""
import os
import re
import subprocess

import webob

from harness import common
from harness import impl
from harness import ops
from harness import surface


def _route_ids():
    """the stable route / method ids of translate/routes.py (the ones Gen/GenRoutes.v and the Spec files use)"""
    import importlib.util
    spec = importlib.util.spec_from_file_location('pv_translate_routes', os.path.join(common.ROOT, 'translate', 'routes.py'))
    mod = importlib.util.module_from_spec(spec)
    spec.loader.exec_module(mod)
    return mod.METHODS, mod.ROUTE_IDS


METHODS, ROUTE_IDS = _route_ids()
COQDIR = os.path.join(common.ROOT, 'coq')
WORK = common.WORK
ERROR_ROUTE = '(error)'
ERROR_ROUTE_ID = 19
ROUTE_OF_ID = {v: k for k, v in ROUTE_IDS.items()}
ROUTE_OF_ID[ERROR_ROUTE_ID] = ERROR_ROUTE
METHOD_OF_ID = {v: k for k, v in METHODS.items()}
LOC = {0: 'body', 1: 'header', 2: 'status'}
HEADERS = ('last-modified', 'cache-control', 'location', 'openstack-api-version', 'vary')
UUID_RE = re.compile(r'^[0-9a-f]{8}-[0-9a-f]{4}-[0-9a-f]{4}-[0-9a-f]{4}-[0-9a-f]{12}$')

U = ops.uuid_of
RP_A, RP_B, RP_SPARE = surface.RP_A, surface.RP_B, surface.RP_SPARE
CONS_A, CONS_SPARE = surface.CONS_A, surface.CONS_SPARE
AGG = surface.AGG
CONS_PUT, CONS_POST, CONS_RESHAPE = U(21, ops.K_CONS), U(22, ops.K_CONS), U(23, ops.K_CONS)
RP_NEW = U(31)


# ------------------------------------------------------------------ the model's table, evaluated by Coq
def parse_coq_value(text):
    """A vm_compute'd value built from lists [a; b], tuples (a, b), Some / None and integers -> nested Python lists /
    tuples / ('Some', x) / None / ints."""
    toks = re.findall(r'\[|\]|\(|\)|;|,|Some|None|-?\d+', text)
    pos = [0]

    def peek():
        return toks[pos[0]] if pos[0] < len(toks) else None

    def take(expected=None):
        t = toks[pos[0]]
        if expected is not None and t != expected:
            raise ValueError('expected %r, got %r at token %d' % (expected, t, pos[0]))
        pos[0] += 1
        return t

    def value():
        t = take()
        if t == '[':
            items = []
            if peek() == ']':
                take()
                return items
            while True:
                items.append(value())
                if take() == ']':
                    return items
        if t == '(':
            items = [value()]
            while peek() == ',':
                take()
                items.append(value())
            take(')')
            return items[0] if len(items) == 1 else tuple(items)
        if t == 'Some':
            return ('Some', value())
        if t == 'None':
            return None
        return int(t)
    v = value()
    if pos[0] != len(toks):
        raise ValueError('trailing tokens')
    return v


def _s(codes):
    return ''.join(chr(c) for c in codes)


def _member(m):
    loc, path, name = m
    return (LOC[loc], tuple('*' if p is None else _s(p[1]) for p in path), _s(name))


_MODEL = {}


def model_table(tag):
    """-> {(route, method): {version: frozenset of (loc, path, name)}} = Spec/RespFields.v:resp_members, by vm_compute
    (evaluated once per process and build of Spec/RespFields.vo)"""
    stamp = os.path.getmtime(os.path.join(COQDIR, 'Spec', 'RespFields.vo'))
    if _MODEL.get('stamp') != stamp:
        _MODEL['stamp'] = stamp
        _MODEL['table'] = _model_table(tag)
    return _MODEL['table']


def _model_table(tag):
    os.makedirs(WORK, exist_ok=True)
    path = os.path.join(WORK, 'resp_table_%s.v' % tag)
    with open(path, 'w') as f:
        f.write('From Coq Require Import ZArith List.\nFrom PV Require Import Spec.RespFields.\nImport ListNotations.\n'
                'Set Printing Width 1000000.\nSet Printing Depth 10000000.\nEval vm_compute in resp_table.\n')
    p = subprocess.run(['coqc', '-Q', COQDIR, 'PV', path], capture_output=True, text=True, timeout=600, cwd=WORK)
    if p.returncode != 0:
        raise RuntimeError('coqc failed on %s: %s' % (path, p.stderr[-1500:]))
    m = re.search(r'=\s*(\[.*\])\s*:\s*list', p.stdout, re.S)
    if not m:
        raise RuntimeError('cannot parse coqc output: %s' % p.stdout[-500:])
    table = {}
    for r, meth, universe, rows in parse_coq_value(m.group(1).replace('%Z', '')):
        uni = [_member(x) for x in universe]
        per_v = {}
        for v, mask in rows:
            assert len(mask) == len(uni)
            per_v[v] = frozenset(x for x, b in zip(uni, mask) if b == 1)
        table[(ROUTE_OF_ID[r], METHOD_OF_ID[meth])] = per_v
    for ext in ('.v', '.vo', '.vok', '.vos', '.glob'):
        try:
            os.remove(path[:-2] + ext)
        except OSError:
            pass
    return table


# ------------------------------------------------------------------ what a response carries
def is_data_key(k):
    return bool(UUID_RE.match(k)) or not re.search(r'[a-z]', k)


def body_members(doc):
    found = set()

    def walk(x, path):
        if isinstance(x, dict):
            if 'rel' in x and 'href' in x and isinstance(x['rel'], str):
                found.add((path, 'rel=%s' % x['rel']))
            for k, val in x.items():
                if is_data_key(k):
                    found.add((path, '*'))
                    walk(val, path + ('*',))
                else:
                    found.add((path, k))
                    walk(val, path + (k,))
        elif isinstance(x, list):
            for e in x:
                walk(e, path + ('[]',))
    walk(doc, ())
    return found


def observed_members(r, with_headers=True):
    """-> (set of body and header members, status)"""
    res = set(('body', p, n) for p, n in body_members(r.json)) if r.json is not None else set()
    if with_headers:
        for h in HEADERS:
            if h in r.headers and (h != 'vary' or 'openstack-api-version' in r.headers[h].lower()):
                res.add(('header', (), h))
    return res, r.status


# ------------------------------------------------------------------ one successful request per operation
def _rq(app, v, method, path, body=None, headers=None):
    h = dict(surface.SVC)
    h.update(headers or {})
    return app.request(method, path, body=body, version='1.%d' % v, headers=h)


def _gen(app, rp):
    return app.request('GET', '/resource_providers/%s' % rp, version='1.39', headers=surface.SVC).json['generation']


def _empty_path(app, v):
    """GET with PATH_INFO '' (webob.Request.blank cannot spell it)"""
    req = webob.Request.blank('/', method='GET', headers={
        'x-auth-token': 'admin', 'OpenStack-API-Version': 'placement 1.%d' % v, 'accept': 'application/json',
        'x-roles': surface.SVC['x-roles']})
    req.environ['PATH_INFO'] = ''
    return impl.Resp(req.get_response(app.app))


INV3 = {'VCPU': {'total': 16}, 'MEMORY_MB': {'total': 4096, 'reserved': 0}, 'DISK_GB': {'total': 100}}


def _allocs(v, rp):
    b = surface.alloc_body(v)
    if isinstance(b['allocations'], dict):
        b['allocations'] = {rp: {'resources': {'VCPU': 1}}}
    else:
        b['allocations'] = [{'resource_provider': {'uuid': rp}, 'resources': {'VCPU': 1}}]
    return b


def operations(v):
    """[(route, method, send(app) -> (description of the request, response))] in the order they are issued on one freshly
    populated state: reads, then writes, then deletions (leaves first).  Only operations that exist at 1.v."""
    A = '/resource_providers/%s' % RP_A

    def simple(method, path, body=None):
        def send(app):
            b = body(app) if callable(body) else body
            return {'method': method, 'path': path, 'body': b}, _rq(app, v, method, path, b)
        return send

    def empty(app):
        return {'method': 'GET', 'path': ''}, _empty_path(app, v)
    res = [
        ('/', 'GET', simple('GET', '/')),
        ('', 'GET', empty),
        ('/resource_classes', 'GET', simple('GET', '/resource_classes')),
        ('/resource_classes/{name}', 'GET', simple('GET', '/resource_classes/CUSTOM_N0')),
        ('/resource_providers', 'GET', simple('GET', '/resource_providers')),
        ('/resource_providers/{uuid}', 'GET', simple('GET', A)),
        ('/resource_providers/{uuid}/inventories', 'GET', simple('GET', A + '/inventories')),
        ('/resource_providers/{uuid}/inventories/{resource_class}', 'GET', simple('GET', A + '/inventories/VCPU')),
        ('/resource_providers/{uuid}/usages', 'GET', simple('GET', A + '/usages')),
        ('/resource_providers/{uuid}/aggregates', 'GET', simple('GET', A + '/aggregates')),
        ('/resource_providers/{uuid}/allocations', 'GET', simple('GET', A + '/allocations')),
        ('/resource_providers/{uuid}/traits', 'GET', simple('GET', A + '/traits')),
        ('/allocations/{consumer_uuid}', 'GET', simple('GET', '/allocations/%s' % CONS_A)),
        ('/allocation_candidates', 'GET', simple('GET', '/allocation_candidates?resources=VCPU:1')),
        ('/traits', 'GET', simple('GET', '/traits')),
        ('/traits/{name}', 'GET', simple('GET', '/traits/CUSTOM_T1')),
        ('/usages', 'GET', simple('GET', '/usages?project_id=proj1')),
        # ---- writes
        ('/resource_classes', 'POST', simple('POST', '/resource_classes', {'name': 'CUSTOM_NEW1'})),
        ('/resource_classes/{name}', 'PUT',
         simple('PUT', '/resource_classes/CUSTOM_N0', {'name': 'CUSTOM_N0R'}) if v < 7
         else simple('PUT', '/resource_classes/CUSTOM_NEW2')),
        ('/resource_providers', 'POST', simple('POST', '/resource_providers', {'name': 'rpNew', 'uuid': RP_NEW})),
        ('/resource_providers/{uuid}', 'PUT', simple('PUT', '/resource_providers/%s' % RP_B, {'name': 'rpB2'})),
        ('/resource_providers/{uuid}/inventories', 'POST',
         simple('POST', A + '/inventories', {'resource_class': 'SRIOV_NET_VF', 'total': 8})),
        ('/resource_providers/{uuid}/inventories', 'PUT',
         simple('PUT', A + '/inventories', lambda app: {'resource_provider_generation': _gen(app, RP_A),
                                                        'inventories': dict(INV3, SRIOV_NET_VF={'total': 4})})),
        ('/resource_providers/{uuid}/inventories/{resource_class}', 'PUT',
         simple('PUT', A + '/inventories/DISK_GB', lambda app: {'resource_provider_generation': _gen(app, RP_A), 'total': 200})),
        ('/resource_providers/{uuid}/aggregates', 'PUT',
         simple('PUT', A + '/aggregates', (lambda app: [AGG, U(2, ops.K_AGG)]) if v < 19 else
                (lambda app: {'resource_provider_generation': _gen(app, RP_A), 'aggregates': [AGG, U(2, ops.K_AGG)]}))),
        ('/resource_providers/{uuid}/traits', 'PUT',
         simple('PUT', A + '/traits', lambda app: {'resource_provider_generation': _gen(app, RP_A),
                                                   'traits': ['CUSTOM_T1', 'HW_CPU_X86_AVX2']})),
        ('/traits/{name}', 'PUT', simple('PUT', '/traits/CUSTOM_NEWT')),
        ('/reshaper', 'POST', simple('POST', '/reshaper', lambda app: {
            'inventories': {RP_B: {'resource_provider_generation': _gen(app, RP_B), 'inventories': INV3}},
            'allocations': {CONS_RESHAPE: dict(_allocs(max(v, 28), RP_B), consumer_generation=None)}})),
        ('/allocations/{consumer_uuid}', 'PUT', simple('PUT', '/allocations/%s' % CONS_PUT, _allocs(v, RP_B))),
        ('/allocations', 'POST', simple('POST', '/allocations', {CONS_POST: _allocs(max(v, 12), RP_B)})),
        # ---- deletions, leaves first (spare objects)
        ('/allocations/{consumer_uuid}', 'DELETE', simple('DELETE', '/allocations/%s' % CONS_SPARE)),
        ('/resource_providers/{uuid}/inventories/{resource_class}', 'DELETE',
         simple('DELETE', '/resource_providers/%s/inventories/DISK_GB' % RP_SPARE)),
        ('/resource_providers/{uuid}/inventories', 'DELETE', simple('DELETE', '/resource_providers/%s/inventories' % RP_SPARE)),
        ('/resource_providers/{uuid}/traits', 'DELETE', simple('DELETE', '/resource_providers/%s/traits' % RP_SPARE)),
        ('/traits/{name}', 'DELETE', simple('DELETE', '/traits/CUSTOM_SPARE')),
        ('/resource_classes/{name}', 'DELETE', simple('DELETE', '/resource_classes/CUSTOM_SPARE')),
        ('/resource_providers/{uuid}', 'DELETE', simple('DELETE', '/resource_providers/%s' % RP_SPARE)),
    ]
    avail = surface.SPEC['availability']
    return [(route, method, send) for route, method, send in res if v >= avail[route][method][0]]


def error_requests(v):
    """answers with an error document, one per producer of errors (as the `code in ...` feature probes)"""
    def send(method, path, body=None, headers=None):
        def f(app):
            hdrs = dict(surface.SVC)
            hdrs.update(headers or {})
            return ({'method': method, 'path': path, 'body': body, 'headers': headers},
                    app.request(method, path, body=body, version='1.%d' % v, headers=hdrs))
        return f
    return [
        ('handler 404', send('GET', '/resource_providers/%s' % U(99))),
        ('router 404', send('GET', '/no_such_route')),
        ('router 405', send('PATCH', '/resource_providers')),
        ('policy 403', send('GET', '/resource_providers', headers={'x-roles': 'member'})),
        ('schema 400', send('POST', '/resource_providers', {'name': 1})),
        ('conflict 409', send('PUT', '/resource_providers/%s/traits' % RP_A, {'resource_provider_generation': 9999, 'traits': []})),
        ('query 400', send('GET', '/resource_providers?no_such_parameter=1')),
    ]


def all_ops():
    avail = surface.SPEC['availability']
    return [(route, method) for route in avail for method in avail[route]]


def compare(route, method, v, model, r):
    """-> None or (missing = in the model, not in the answer; extra = in the answer, not in the model; status ok)"""
    want = model[(route, method)][v]
    got, status = observed_members(r, with_headers=route != ERROR_ROUTE)
    want_members = set(x for x in want if x[0] != 'status')
    statuses = set(int(x[2]) for x in want if x[0] == 'status')
    missing = sorted(want_members - got)
    extra = sorted(got - want_members)
    status_ok = (status in statuses) if route != ERROR_ROUTE else (400 <= status < 500)
    if missing or extra or not status_ok:
        return missing, extra, status_ok, status, sorted(statuses)
    return None


def fmt(m):
    loc, path, name = m
    return '%s:%s%s' % (loc, ''.join(p + '/' for p in path), name)


def run(tag, versions=None, only=None, on_check=None):
    """-> (n checks, [(payload, text)] mismatches, error or None).  only = (route, method) restricts the report."""
    try:
        model = model_table(tag)
    except Exception as exc:      # noqa
        return 0, [], 'cannot evaluate Spec/RespFields.v:resp_table: %s' % str(exc)[-600:]
    declared = set(all_ops()) | {(ERROR_ROUTE, 'GET')}
    if set(model) != declared:
        return 0, [], 'operations of resp_table %s differ from the documented operations' % sorted(set(model) ^ declared)
    n = 0
    bad = []
    covered = set()
    for v in (versions if versions is not None else range(surface.SPEC['max_version'] + 1)):
        app = impl.App()
        try:
            surface.setup_state(app)
            oper = [(route, method, send, None) for route, method, send in operations(v)]
            errs = [(ERROR_ROUTE, 'GET', send, what) for what, send in error_requests(v)]
            steps = [s for s in oper if s[1] == 'GET'] + errs + [s for s in oper if s[1] != 'GET']   # errors after the reads
            for route, method, send, what in steps:
                if v not in model[(route, method)]:
                    return n, bad, 'resp_table has no row for %s %s at 1.%d' % (method, route, v)
                req, r = send(app)
                n += 1
                covered.add((route, method, v))
                if on_check:
                    on_check(route, method, v, r)
                diff = compare(route, method, v, model, r)
                if diff is None or (only and (route, method) != tuple(only)):
                    continue
                missing, extra, status_ok, status, statuses = diff
                parts = []
                if missing:
                    parts.append('absent from the answer: %s' % ', '.join(fmt(m) for m in missing))
                if extra:
                    parts.append('present in the answer, not in the model: %s' % ', '.join(fmt(m) for m in extra))
                if not status_ok:
                    parts.append('status %d, model %s' % (status, statuses))
                text = 'response members of %s %s%s at 1.%d differ from Spec/RespFields.v:resp_members (the model that ' \
                       'C14_response_fields compares with the documented table): %s' % (
                           method, route, ' [%s]' % what if what else '', v, '; '.join(parts))
                bad.append(({'kind': 'response-members', 'version': v, 'route': route, 'method': method, 'producer': what,
                             'request': req, 'status': r.status, 'missing': [fmt(m) for m in missing],
                             'extra': [fmt(m) for m in extra], 'model_statuses': statuses}, text))
        finally:
            app.close()
    if versions is None:
        expected = set((route, method, v) for (route, method), per_v in model.items() for v in per_v)
        if covered != expected:
            return n, bad, 'operation/version pairs of resp_table never requested: %s' % sorted(expected - covered)[:5]
    return n, bad, None


def undocumented(model):
    """members of the model that spec/surface.json:response_fields does not give the operation at that version
    -> [(route, method, 'loc:path/name', first such version)]"""
    docs = {}
    for f in surface.SPEC['response_fields']:
        key = (f['route'], f['method'], (f['in'], tuple(f['where']), f['field']))
        docs.setdefault(key, []).append((f['introduced'], f.get('removed', -1)))
    first = {}
    for (route, method), per_v in sorted(model.items()):
        for v in sorted(per_v):
            for m in sorted(per_v[v]):
                if not any(i <= v and (r < 0 or v < r) for i, r in docs.get((route, method, m), [])):
                    first.setdefault((route, method, fmt(m)), v)
    return [(route, method, member, v) for (route, method, member), v in sorted(first.items())]
