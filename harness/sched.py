"""Deterministic scheduler: runs several requests concurrently against the real application, one
top-level database transaction at a time, in the order a schedule prescribes.

Each request runs in its own thread on a file-backed SQLite database (one connection per thread).  A
SQLAlchemy `before_cursor_execute` hook parks a thread just before the first statement of every
*significant* top-level transaction (one that touches a core table) until the scheduler hands it the
baton; auxiliary transactions (projects / users / consumer types / name caches) run through.
"""
import threading

from harness import impl
from harness import ops

CORE_TABLES = ('resource_providers', 'inventories', 'allocations', 'consumers', 'placement_aggregates',
               'resource_provider_aggregates', 'resource_provider_traits')

TL = threading.local()


class Baton(object):
    def __init__(self, schedule, n):
        self.schedule = list(schedule)
        self.pos = 0
        self.cv = threading.Condition()
        self.done = set()
        self.turn = None
        self.n = n
        self.trace = []          # (thread, label) of significant transactions in execution order
        self.parked = {}

    def wait_turn(self, tid, label=None):
        with self.cv:
            self.parked[tid] = label
            self.turn = None
            self.cv.notify_all()
            self.cv.wait_for(lambda: self.turn == tid)

    def finish(self, tid):
        with self.cv:
            self.done.add(tid)
            self.turn = None
            self.cv.notify_all()

    def drive(self):
        used = []
        with self.cv:
            while len(self.done) < self.n:
                nxt = None
                while self.pos < len(self.schedule):
                    c = self.schedule[self.pos]
                    self.pos += 1
                    if c not in self.done and c < self.n:
                        nxt = c
                        break
                if nxt is None:
                    nxt = [t for t in range(self.n) if t not in self.done][0]
                used.append(nxt)
                self.turn = nxt
                self.cv.notify_all()
                self.cv.wait_for(lambda: self.turn is None)
        return used


def label_of(stmt):
    s = ' '.join(stmt.split())
    verb = s.split(' ', 1)[0].upper()
    tables = [t for t in CORE_TABLES if t in s.lower()]
    # longest table names first so that resource_provider_traits is not read as resource_providers
    tables.sort(key=len, reverse=True)
    if not tables:
        return None
    # the table a statement is "about": FROM / INTO / UPDATE target
    low = s.lower()
    for kw in ('insert into ', 'update ', 'delete from ', ' from '):
        i = low.find(kw)
        if i >= 0:
            rest = low[i + len(kw):]
            for t in tables:
                if rest.startswith(t):
                    return '%s %s' % (verb, t)
    return '%s %s' % (verb, tables[0])


_BATON = [None]
# fault-assisted scenarios: thread `tid` loses a duplicate-key race at its next `left` statements containing `match`
FAULT = {'tid': None, 'match': '', 'left': 0, 'crash_at': None, 'seen': 0}
# crash mode (C18, raced requests): thread `tid` dies (BaseException, its transaction in flight rolled back with its connection)
# before its `crash_at`-th statement (counted from 0 over all statements the thread issues)


def _on_stmt(index, stmt, params):
    """A scheduling slot of a thread = any number of auxiliary transactions followed by exactly one
    significant transaction; the thread parks at the first statement of the next top-level transaction."""
    b = _BATON[0]
    if b is None or getattr(TL, 'tid', None) is None:
        return
    if getattr(TL, 'fresh_txn', False):
        TL.fresh_txn = False
        if getattr(TL, 'sig_in_slot', False):
            TL.sig_in_slot = False
            b.wait_turn(TL.tid)
    lab = label_of(stmt)
    if lab is not None and not getattr(TL, 'sig_in_slot', False) and getattr(TL, 'depth', 0) <= 1:
        TL.sig_in_slot = True
        b.trace.append((TL.tid, lab))


def _install():
    eng = impl.init()['engine']
    if getattr(eng, '_pv_sched', False):
        return
    eng._pv_sched = True
    from sqlalchemy import event

    @event.listens_for(eng, 'begin')
    def begin(conn):
        d = getattr(TL, 'depth', 0)
        TL.depth = d + 1
        if d == 0:
            TL.fresh_txn = True

    @event.listens_for(eng, 'commit')
    def commit(conn):
        TL.depth = max(0, getattr(TL, 'depth', 1) - 1)

    @event.listens_for(eng, 'rollback')
    def rollback(conn):
        TL.depth = max(0, getattr(TL, 'depth', 1) - 1)

    @event.listens_for(eng, 'before_cursor_execute')
    def before(conn, cursor, statement, parameters, context, executemany):
        st = statement.strip()
        if st.upper().startswith('BEGIN') or st.upper().startswith('PRAGMA'):
            return
        _on_stmt(0, st, parameters)
        f = FAULT
        if f.get('crash_at') is not None and getattr(TL, 'tid', None) == f['tid']:
            f['seen'] += 1
            if f['seen'] - 1 == f['crash_at']:
                raise impl.Crash('process died before statement %d of thread %d' % (f['crash_at'], f['tid']))
        if f['left'] > 0 and getattr(TL, 'tid', None) == f['tid'] and f['match'] in st:
            # a duplicate-key race lost by this thread: the statement fails, the enclosing transaction is rolled back
            f['left'] -= 1
            from oslo_db import exception as db_exc
            raise db_exc.DBDuplicateEntry()


def run_concurrent(app, requests, schedule, headers=None):
    """requests: list of (method, path, body, version). Returns (responses, trace, used_schedule)."""
    _install()
    n = len(requests)
    baton = Baton(schedule, n)
    _BATON[0] = baton
    results = [None] * n

    def worker(i):
        TL.tid = i
        TL.depth = 0
        TL.fresh_txn = False
        TL.sig_in_slot = False
        impl.TL.observe = False
        baton.wait_turn(i)        # start parked
        try:
            m, p, b, v = requests[i]
            try:
                results[i] = app.request(m, p, body=b, version=v, headers=headers or {'x-roles': 'admin,service'})
            except BaseException as exc:   # noqa
                results[i] = exc
        finally:
            TL.tid = None
            baton.finish(i)
    threads = [threading.Thread(target=worker, args=(i,), daemon=True) for i in range(n)]
    for t in threads:
        t.start()
    # wait until every worker is parked at its start
    with baton.cv:
        baton.cv.wait_for(lambda: len(baton.parked) == n)
    used = baton.drive()
    for t in threads:
        t.join(timeout=60)
    _BATON[0] = None
    return results, baton.trace, used
