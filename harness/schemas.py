"""Differential tie between Model/Json.v `validate` over the regenerated schemas (Gen/GenSchemas.v) and
python-jsonschema as placement calls it (util.extract_json / util.validate_query_params):

    jsonschema.validate(document, schema, format_checker=jsonschema.FormatChecker())

Documents are generated FROM each schema (mostly valid, each node mutated with some probability: wrong type, bounds,
floats with and without integral value, nan/inf, booleans, empty/extra/missing keys, keys and strings that break
or nearly satisfy the patterns, other uuid spellings, long strings, repeated array items), evaluated by the real
validator, written as Coq terms and evaluated by `validate` under vm_compute.

    PYTHONPATH=/repo:/verif PYTHONHASHSEED=0 /venv/bin/python -m harness.schemas SEED N_PER_SCHEMA
run(seed, n) -> (cases, disagreements, stats)
"""
import importlib
import json
import math
import os
import random
import re
import subprocess
import sys

import jsonschema

from placement import util as real_util     # noqa: F401  registers the uuid format checker

ROOT = os.path.dirname(os.path.dirname(os.path.abspath(__file__)))
COQDIR = os.path.join(ROOT, 'coq')
WORK = os.path.join(ROOT, 'work', 'schemas')


def load_schemas():
    names = json.load(open(os.path.join(ROOT, 'work', 'schemas.json')))
    out = []
    for dotted, cname in names:
        mod, attr = dotted.split('.')
        out.append((dotted, cname, getattr(importlib.import_module('placement.schemas.' + mod), attr)))
    return out


# ------------------------------------------------------------------ documents as Coq terms
def cstr(s):
    return '[' + ';'.join(str(ord(c)) for c in s) + ']'


def cz(n):
    if abs(n) >= 10 ** 30:
        return '(-%s)' % hex(-n) if n < 0 else hex(n)
    return '(%d)' % n if n < 0 else '%d' % n


def cjson(j):
    if j is None:
        return 'JNull'
    if j is True or j is False:
        return 'JBool %s' % ('true' if j else 'false')
    if isinstance(j, int):
        return 'JInt %s' % cz(j)
    if isinstance(j, float):
        if j != j:
            return 'JSpec 0'
        if j in (float('inf'), float('-inf')):
            return 'JSpec %s' % ('1' if j > 0 else '(-1)')
        if j == 0:
            return 'JFlt 0 0'
        m, e = math.frexp(j)
        m = int(m * (1 << 53))
        e -= 53
        while m % 2 == 0:
            m //= 2
            e += 1
        return 'JFlt %s %s' % (cz(m), cz(e))
    if isinstance(j, str):
        return 'JStr %s' % cstr(j)
    if isinstance(j, list):
        return 'JArr [%s]' % '; '.join('(%s)' % cjson(x) if not isinstance(x, type(None)) else 'JNull' for x in j)
    if isinstance(j, dict):
        return 'JObj [%s]' % '; '.join('(%s, %s)' % (cstr(k), cjson(v)) for k, v in j.items())
    raise TypeError(type(j))


# ------------------------------------------------------------------ generation
UUIDS = ['00000000-0000-0000-0000-abcdef000001', '00000000-0000-0001-0000-ABCDEF000002', '0' * 32,
         '{00000000-0000-0000-0000-abcdef000003}', 'urn:uuid:00000000-0000-0000-0000-abcdef000004',
         '00000000-0000-0000-0000-abcdef00000', '00000000-0000-0000-0000-abcdef00000g', '0000-0000' * 4,
         '00000000-0000-0000-0000-abcdef000001\n', ' 00000000-0000-0000-0000-abcdef000001', '-' * 36, 'f' * 36,
         '0' * 31 + '\u0661', 'uuid:' + 'a' * 32, 'urn:urn:' + 'b' * 32, '{{' + 'c' * 32 + '}', 'A-' * 16 + 'AAAA']
ODD_STR = ['', ' ', '\n', 'a', 'A', '_', '0', 'VCPU', 'CUSTOM_', 'CUSTOM_A', 'CUSTOM_a', 'CUSTOM_A\n', 'VCPU\n', 'vcpu', 'A B',
           'A-B', '\u00c9', 'CUSTOM_\u0410', 'x' * 64, 'x' * 65, 'y' * 200, 'y' * 201, 'z' * 255, 'z' * 256, 'none', 'isolate',
           'all', 'unknown', 'allx', 'xunknown', '1', '01', '10', '1 ', '-1', '1.0', '\u0661', '_A', 'a-b_C9', 'a.b', 'a b',
           'resources1', 'resources', 'resources01', 'resources_A', 'required' + 'k' * 64, 'required' + 'k' * 65,
           'member_of1\n', 'in_tree-x', 'null', 'true']
NUMS = [-10 ** 400, 10 ** 400, -10 ** 40, 0, 1, -1, 2, 5, 2147483647, 2147483648, -2147483648, 10 ** 20, 10 ** 40, 1.0, 1.5, 0.5, -0.0, 0.0, 2.0, 1e10, 1e-300,
        3.40282e+38, 3.4028200000000004e+38, 3.402819e+38, 1e39, 2147483647.0, 2147483648.0, 2147483647.5, 0.9999999999999999,
        1.0000000000000002, float('nan'), float('inf'), float('-inf'), 4.0, 1e308, -1e308, 4.000000000000001]


def sample_matching(rng, pattern):
    """a string that (probably) matches the regular expression, built from its character classes"""
    alts = pattern.split('|') if '(' not in pattern else [pattern]
    p = rng.choice(alts)
    out = ''
    i = 0
    p = p.replace('\\Z', '').rstrip('$').lstrip('^')
    while i < len(p):
        c = p[i]
        if c == '(':
            j = p.index(')', i)
            inner = p[i + 1:j]
            i = j + 1
            opt = i < len(p) and p[i] == '?'
            if opt:
                i += 1
            if not opt or rng.random() < 0.7:
                out += sample_matching(rng, inner)
            continue
        if c == '[':
            j = p.index(']', i + 1)
            cls = p[i + 1:j]
            i = j + 1
            chars = []
            k = 0
            while k < len(cls):
                if k + 2 < len(cls) and cls[k + 1] == '-':
                    chars += [chr(x) for x in range(ord(cls[k]), ord(cls[k + 2]) + 1)]
                    k += 3
                else:
                    chars.append(cls[k])
                    k += 1
        else:
            chars = [c]
            i += 1
        n = 1
        if i < len(p) and p[i] == '+':
            n = rng.choice([1, 1, 2, 3, 6])
            i += 1
        elif i < len(p) and p[i] == '*':
            n = rng.choice([0, 0, 1, 2, 4])
            i += 1
        elif i < len(p) and p[i] == '{':
            j = p.index('}', i)
            body = p[i + 1:j]
            i = j + 1
            if ',' in body:
                lo, hi = map(int, body.split(','))
                n = rng.choice([lo, lo, hi, rng.randint(lo, hi), min(hi, lo + 2)])
            else:
                n = int(body)
        out += ''.join(rng.choice(chars) for _ in range(n))
    return out


def any_value(rng, depth=0):
    r = rng.random()
    if r < 0.3:
        return rng.choice(NUMS)
    if r < 0.55:
        return rng.choice(ODD_STR + UUIDS)
    if r < 0.65:
        return rng.choice([None, True, False])
    if r < 0.8 or depth > 2:
        return [any_value(rng, depth + 1) for _ in range(rng.choice([0, 1, 2]))]
    return {rng.choice(ODD_STR + UUIDS): any_value(rng, depth + 1) for _ in range(rng.choice([0, 1, 2]))}


def gen(rng, s, p_bad, depth=0):
    """an instance for schema s; every node is replaced by an arbitrary value with probability p_bad"""
    if rng.random() < p_bad:
        return any_value(rng, depth)
    if 'anyOf' in s:
        return gen(rng, rng.choice(s['anyOf']), p_bad, depth)
    t = s.get('type')
    if isinstance(t, list):
        t = rng.choice(t)
    if 'enum' in s and rng.random() < 0.85:
        return rng.choice(s['enum'])
    if t == 'object':
        o = {}
        props = s.get('properties', {})
        req = s.get('required', [])
        for k in props:
            if k in req and rng.random() < 0.93 or k not in req and rng.random() < 0.5:
                o[k] = gen(rng, props[k], p_bad, depth + 1)
        for pat, sub in s.get('patternProperties', {}).items():
            for _ in range(rng.choice([0, 1, 1, 2, 3])):
                k = sample_matching(rng, pat)
                if rng.random() < 0.08:
                    k = rng.choice([k + '\n', k.lower(), ' ' + k, k + '-', rng.choice(ODD_STR + UUIDS)])
                o[k] = gen(rng, sub, p_bad, depth + 1)
        if rng.random() < 0.06:
            o[rng.choice(ODD_STR)] = any_value(rng, depth + 1)
        return o
    if t == 'array':
        n = rng.choice([0, 1, 1, 2, 3])
        l = [gen(rng, s.get('items', {}), p_bad, depth + 1) for _ in range(n)]
        if l and rng.random() < 0.15:
            l.append(rng.choice(l))                 # a repeated item (uniqueItems)
        if l and rng.random() < 0.05 and isinstance(l[0], int) and not isinstance(l[0], bool):
            l.append(float(l[0]))                   # 1 and 1.0 are the same item
        return l
    if t == 'string':
        if s.get('format') == 'uuid':
            return rng.choice(UUIDS[:5] if rng.random() < 0.7 else UUIDS)
        if 'pattern' in s:
            x = sample_matching(rng, s['pattern'])
            if rng.random() < 0.15:
                x = rng.choice([x + '\n', x.lower(), x + ' ', '\u00c9' + x, x * 40])
            return x
        lo, hi = s.get('minLength', 0), s.get('maxLength', 300)
        r = rng.random()
        if r < 0.6:
            return 'n' * rng.randint(max(lo, 1), min(hi, 12))
        if r < 0.8:
            return 'm' * rng.choice([lo, hi, max(0, lo - 1), hi + 1])
        return rng.choice(ODD_STR)
    if t in ('integer', 'number'):
        lo, hi = s.get('minimum'), s.get('maximum')
        r = rng.random()
        if r < 0.5:
            a = 0 if lo is None else lo
            b = a + 20 if hi is None else min(hi, a + 20)
            v = rng.randint(int(a), int(b))
            if t == 'number' and rng.random() < 0.6:
                v = rng.choice([v + 0.5, float(v), v * 0.1, 1.5, 16.0, 0.7])
            return v
        if r < 0.75:
            c = [x for x in (lo, hi) if x is not None] or [0]
            b = rng.choice(c)
            return rng.choice([b, b - 1, b + 1, float(b) if abs(b) < 1e300 else b, b - 0.5, b + 0.5])
        return rng.choice(NUMS)
    if t == 'null':
        return None
    if t == 'boolean':
        return rng.random() < 0.5
    return any_value(rng, depth)


def sub_schemas(s, key):
    """the schemas that apply to property `key` of an object validated by s"""
    out = []
    if key in s.get('properties', {}):
        out.append(s['properties'][key])
    for pat, sub in s.get('patternProperties', {}).items():
        if re.search(pat, key):
            out.append(sub)
    return out


def nodes(doc, s, path=()):
    """(path, sub-document, schema) for every node of doc that some schema speaks about"""
    yield path, doc, s
    for alt in s.get('anyOf', []):
        if alt.get('type') != 'null' and doc is not None:
            for x in nodes(doc, alt, path):
                if x[0] != path:
                    yield x
    if isinstance(doc, dict):
        for k, v in doc.items():
            for sub in sub_schemas(s, k):
                for x in nodes(v, sub, path + (k,)):
                    yield x
    elif isinstance(doc, list) and 'items' in s:
        for i, v in enumerate(doc):
            for x in nodes(v, s['items'], path + (i,)):
                yield x


def replace_at(doc, path, new, delete=False):
    import copy
    doc = copy.deepcopy(doc)
    if not path:
        return new
    cur = doc
    for k in path[:-1]:
        cur = cur[k]
    if delete:
        del cur[path[-1]]
    else:
        cur[path[-1]] = new
    return doc


def boundary_docs(base, s):
    """single-node variants of a valid document, one for every keyword at every position: values on and just beyond
    each bound (as int and as float), lengths on and beyond each limit, each required key removed, emptied objects
    and arrays, a repeated array item, an additional key, a near-miss of every pattern, wrong types"""
    out = []
    for path, sub, sc in nodes(base, s):
        t = sc.get('type')
        ts = t if isinstance(t, list) else [t]
        if 'integer' in ts or 'number' in ts:
            vals = [0, 1, -1, 1.0, 1.5, True, None, '1', float('nan'), float('inf'), float('-inf'), -10 ** 40, -10 ** 400, 10 ** 400,
                    -1e308, 2 ** 53 + 1,
                    # integral FLOATS around the database integer limits ("integer" admits 2147483648.0, 1e30)
                    2147483647.0, 2147483648.0, 3e9, float(2 ** 63), float(2 ** 64), 1e30, 1e308, -2147483649.0, 2 ** 31, 2 ** 63, 2 ** 64]
            for b in (sc.get('minimum'), sc.get('maximum')):
                if b is not None:
                    ib = int(b)
                    vals += [ib, ib - 1, ib + 1, float(ib), float(ib) - 0.5, float(ib) + 0.5]
                    if abs(ib) < 2 ** 53:
                        vals += [float(ib - 1), float(ib + 1)]
                    else:
                        vals += [b * (1 + 2 ** -52), b * (1 - 2 ** -53), ib * 2]
            for v in vals:
                out.append(replace_at(base, path, v))
        if 'string' in ts:
            vals = [1, None, [], '']
            for b in (sc.get('minLength'), sc.get('maxLength')):
                if b is not None:
                    vals += ['q' * b, 'q' * (b + 1)] + (['q' * (b - 1)] if b > 0 else [])
            if 'pattern' in sc and isinstance(sub, str):
                vals += [sub + '\n', sub.lower(), sub + ' ', ' ' + sub, sub + '\u00e9', sub[:-1], sub[1:], 'CUSTOM_', sub * 60]
            if sc.get('format') == 'uuid':
                vals += UUIDS
            if 'enum' in sc:
                vals += list(sc['enum']) + [sc['enum'][0] + 'x', sc['enum'][0].upper()]
            for v in vals:
                out.append(replace_at(base, path, v))
        if 'object' in ts and isinstance(sub, dict):
            out.append(replace_at(base, path, {}))
            out.append(replace_at(base, path, []))
            out.append(replace_at(base, path, None))
            for k in list(sub):
                out.append(replace_at(base, path + (k,), None, delete=True))
            for extra in ('zz_extra', 'VCPU', '00000000-0000-0000-0000-abcdef000009', 'a-b_C9', 'resources_X', ''):
                if extra not in sub:
                    d = replace_at(base, path, dict(sub, **{extra: (list(sub.values()) or [1])[0]}))
                    out.append(d)
            for pat in sc.get('patternProperties', {}):
                for k in list(sub):
                    if re.search(pat, k):
                        rk = random.Random(len(k))
                        alike = [sample_matching(rk, pat) for _ in range(3)]        # other strings the pattern accepts
                        alike += [c * len(k) for c in ('-', '0', 'F', '_', 'Z') if re.search(pat, c * len(k))]
                        alike += [k[:i] + '-' + k[i + 1:] for i in (0, len(k) // 2) if re.search(pat, k[:i] + '-' + k[i + 1:])]
                        for k2 in [k + '\n', k.lower(), k.upper(), k + 'x', k[:-1], ' ' + k] + alike:
                            d = dict(sub)
                            d[k2] = d.pop(k)
                            out.append(replace_at(base, path, d))
                        break
        if 'array' in ts and isinstance(sub, list):
            out.append(replace_at(base, path, []))
            out.append(replace_at(base, path, {}))
            if sub:
                out.append(replace_at(base, path, sub + [sub[0]]))
                out.append(replace_at(base, path, sub + [1.0, 1, True, None]))
                out.append(replace_at(base, path, sub[:1]))
        if 'null' in ts:
            out.append(replace_at(base, path, None))
    return out


def real_valid(schema, doc):
    try:
        jsonschema.validate(doc, schema, format_checker=jsonschema.FormatChecker())
        return 1
    except jsonschema.ValidationError:
        return 0


def run_coq_flags(path, n, timeout=1500):
    p = subprocess.run(['coqc', '-Q', COQDIR, 'PV', path], capture_output=True, text=True, timeout=timeout,
                       cwd=os.path.dirname(path))
    if p.returncode != 0:
        raise RuntimeError('coqc failed on %s:\n%s\n%s' % (path, p.stdout[-2000:], p.stderr[-4000:]))
    m = re.search(r'=\s*\[(.*?)\]\s*:\s*list Z', p.stdout, re.S)
    if not m:
        raise RuntimeError('cannot parse coqc output: %s' % p.stdout[-2000:])
    vals = [int(x.strip().replace('%Z', '')) for x in m.group(1).split(';') if x.strip()]
    assert len(vals) == n, (len(vals), n)
    return vals


def model_flags(cases, tag, shard=400, jobs=8):
    """cases: [(cname, doc)] -> [0/1] as Model/Json.v validates them"""
    from concurrent.futures import ThreadPoolExecutor
    os.makedirs(WORK, exist_ok=True)
    paths = []
    for k in range(0, len(cases), shard):
        part = cases[k:k + shard]
        path = os.path.join(WORK, 'sch_%s_%d.v' % (tag, k))
        with open(path, 'w') as f:
            f.write('From Coq Require Import ZArith List Bool.\nFrom PV Require Import Model.Json Gen.GenSchemas.\n'
                    'Import ListNotations.\nOpen Scope Z_scope.\n')
            for i, (cname, doc) in enumerate(part):
                f.write('Definition f%d : bool := validate %s (%s).\n' % (i, cname, cjson(doc)))
            f.write('Definition flags : list Z := [%s].\nEval vm_compute in flags.\n'
                    % '; '.join('(if f%d then 1 else 0)' % i for i in range(len(part))))
        paths.append((path, len(part)))
    with ThreadPoolExecutor(max_workers=jobs) as ex:
        res = list(ex.map(lambda pn: run_coq_flags(*pn), paths))
    for path, _n in paths:
        for ext in ('.v', '.vo', '.vok', '.vos', '.glob'):
            try:
                os.remove(path[:-2] + ext)
            except OSError:
                pass
        try:
            os.remove(os.path.join(WORK, '.' + os.path.basename(path)[:-2] + '.aux'))
        except OSError:
            pass
    return [v for r in res for v in r]


def run(seed, n_per_schema, tag=None):
    rng = random.Random(seed)
    schemas = load_schemas()
    cases, real, names = [], [], []
    for dotted, cname, s in schemas:
        for k in range(n_per_schema):
            p_bad = [0.0, 0.03, 0.03, 0.1, 0.25][k % 5]
            doc = gen(rng, s, p_bad)
            try:
                json.dumps(doc)
            except (TypeError, ValueError):
                continue
            cases.append((cname, doc))
            real.append(real_valid(s, doc))
            names.append(dotted)
    # the systematic part: boundary variants of two valid documents per schema
    n_boundary = 0
    for dotted, cname, s in schemas:
        for k in range(2):
            base = None
            for _ in range(30):
                cand = gen(rng, s, 0.0)
                if real_valid(s, cand):
                    base = cand
                    if k == 0 or len(json.dumps(cand)) > 40:
                        break
            if base is None:
                continue
            for doc in boundary_docs(base, s):
                try:
                    json.dumps(doc)
                except (TypeError, ValueError):
                    continue
                cases.append((cname, doc))
                real.append(real_valid(s, doc))
                names.append(dotted)
                n_boundary += 1
    model = model_flags(cases, tag or str(seed))
    dis = [{'schema': names[i], 'document': cases[i][1], 'jsonschema_valid': bool(real[i]), 'model_valid': bool(model[i])}
           for i in range(len(cases)) if real[i] != model[i]]
    stats = {'schemas': len(schemas), 'cases': len(cases), 'boundary_variants': n_boundary, 'valid': sum(real), 'invalid': len(real) - sum(real),
             'distinct': len(set(json.dumps(c, sort_keys=True, default=str) for c in cases))}
    return len(cases), dis, stats


if __name__ == '__main__':
    n, dis, stats = run(int(sys.argv[1]), int(sys.argv[2]))
    print(stats)
    for d in dis[:15]:
        print('DISAGREE', d['schema'], 'jsonschema:', d['jsonschema_valid'], 'model:', d['model_valid'], json.dumps(d['document'])[:300])
    print('%d cases, %d disagreements' % (n, len(dis)))
    sys.exit(1 if dis else 0)
