"""Long differential run: model vs implementation on generated histories. Usage: soak.py SEED N_HIST N_OPS"""
import collections
import os
import random
import sys
import time

sys.path.insert(0, os.path.dirname(os.path.dirname(os.path.abspath(__file__))))
from harness import coqrun, hist  # noqa: E402


def main():
    seed, n, k = int(sys.argv[1]), int(sys.argv[2]), int(sys.argv[3])
    t = time.time()
    total_bad = 0
    stat = collections.Counter()
    for base in range(0, n, 100):
        cases = []
        for i in range(base, min(n, base + 100)):
            rng = random.Random(seed * 100000 + i)
            c = hist.run_history(rng, k)
            for op, obs, d in c:
                stat[(op[0], obs[0])] += 1
            cases.append(c)
        bad = coqrun.check_cases(cases)
        for ci, step in bad:
            total_bad += 1
            print('DISAGREE seed=%d hist=%d step=%d op=%r obs=%r' % (seed, base + ci, step, cases[ci][step][0],
                                                                 cases[ci][step][1]), flush=True)
        print('progress %d/%d bad=%d t=%.0f' % (min(n, base + 100), n, total_bad, time.time() - t), flush=True)
    for kk in sorted(stat):
        print(kk, stat[kk])


if __name__ == '__main__':
    main()
