"""Probing of the HTTP surface of the real application: availability matrix, versioned features,
authorisation matrix.  Shared by the C14 and C16 checks."""
import json
import os

from harness import impl
from harness import ops

ROOT = os.path.dirname(os.path.dirname(os.path.abspath(__file__)))
SPEC = json.load(open(os.path.join(ROOT, 'spec', 'surface.json')))
U = ops.uuid_of
RP_A, RP_B, RP_SPARE = U(1), U(2), U(3)
CONS_A, CONS_SPARE = U(1, ops.K_CONS), U(2, ops.K_CONS)
AGG = U(1, ops.K_AGG)
SVC = {'x-roles': 'admin,service'}
ALL_METHODS = ['GET', 'POST', 'PUT', 'DELETE', 'PATCH']


def setup_state(app):
    """A small populated state: providers A (root) > B (child), spare provider, classes, traits, consumers."""
    def ok(r):
        assert r.status < 300, r
    rq = lambda m, p, b=None, v='1.39': app.request(m, p, body=b, version=v, headers=SVC)  # noqa: E731
    ok(rq('POST', '/resource_providers', {'name': 'rpA', 'uuid': RP_A}))
    ok(rq('POST', '/resource_providers', {'name': 'rpB', 'uuid': RP_B, 'parent_provider_uuid': RP_A}))
    ok(rq('POST', '/resource_providers', {'name': 'rpSpare', 'uuid': RP_SPARE}))
    ok(rq('PUT', '/resource_classes/CUSTOM_N0'))
    ok(rq('PUT', '/resource_classes/CUSTOM_SPARE'))
    ok(rq('PUT', '/traits/CUSTOM_T1'))
    ok(rq('PUT', '/traits/CUSTOM_SPARE'))
    for rp, g in ((RP_A, 0), (RP_B, 0), (RP_SPARE, 0)):
        ok(rq('PUT', '/resource_providers/%s/inventories' % rp, {
            'resource_provider_generation': g,
            'inventories': {'VCPU': {'total': 16}, 'MEMORY_MB': {'total': 4096, 'reserved': 0},
                            'DISK_GB': {'total': 100}}}))
    ok(rq('PUT', '/resource_providers/%s/traits' % RP_A,
          {'resource_provider_generation': 1, 'traits': ['CUSTOM_T1', 'HW_CPU_X86_AVX']}))
    ok(rq('PUT', '/resource_providers/%s/aggregates' % RP_A,
          {'resource_provider_generation': 2, 'aggregates': [AGG]}))
    ok(rq('PUT', '/resource_providers/%s/traits' % RP_SPARE,
          {'resource_provider_generation': 1, 'traits': ['HW_CPU_X86_AVX']}))
    for c in (CONS_A, CONS_SPARE):
        ok(rq('PUT', '/allocations/%s' % c, {
            'allocations': {RP_A: {'resources': {'VCPU': 1}}}, 'project_id': 'proj1', 'user_id': 'user1',
            'consumer_generation': None, 'consumer_type': 'TYPE1'}))


def concrete_path(route, method):
    """A concrete path for a route template; DELETE probes use spare objects."""
    spare = method == 'DELETE'
    rp = RP_SPARE if spare else RP_A
    return (route.replace('{uuid}', rp)
            .replace('{resource_class}', 'DISK_GB' if spare else 'VCPU')
            .replace('{consumer_uuid}', CONS_SPARE if spare else CONS_A)
            .replace('{name}', 'CUSTOM_SPARE' if spare else ('CUSTOM_N0' if 'resource_classes' in route
                                                              else 'CUSTOM_T1')))


def availability_matrix(versions, on_probe):
    """For each version: every documented route + an unknown one x every method.

    on_probe(v, route, method, resp, expected) is called for each request."""
    avail = SPEC['availability']
    n = 0
    for v in versions:
        app = impl.App()
        setup_state(app)
        probes = [(route, method) for route in list(avail) + ['/no_such_route'] for method in ALL_METHODS
                  if route != '']      # webob cannot issue a request with an empty path; '/' covers home
        # destructive probes last, leaves before their containers
        probes = [p for p in probes if p[1] != 'DELETE'] + \
            sorted([p for p in probes if p[1] == 'DELETE'], key=lambda p: -len(p[0]))
        for route, method in probes:
            path = concrete_path(route, method) if route in avail else route
            body = {} if method in ('POST', 'PUT', 'PATCH') else None
            if route not in avail:
                exp = ('exact', 404)
            elif method not in avail[route]:
                exp = ('exact', 405)
            else:
                intro, below = avail[route][method]
                exp = ('available',) if v >= intro else ('exact', below)
            r = app.request(method, path, body=body, version='1.%d' % v, headers=SVC)
            on_probe(v, route, method, r, exp)
            n += 1
            if exp[0] == 'exact' and exp[1] in (404, 405):
                # an operation that does not exist (yet) must not start to exist when it is asked for again (a retry, a
                # client pinned to an old version): the same request immediately once more
                r = app.request(method, path, body=body, version='1.%d' % v, headers=SVC)
                on_probe(v, route, method, r, exp)
                n += 1
        app.close()
    return n


# ------------------------------------------------------------------ versioned features
def _rq(app, v, m, p, b=None, headers=None):
    h = dict(SVC)
    h.update(headers or {})
    return app.request(m, p, body=b, version='1.%d' % v, headers=h)


def _cand(app, v, qs):
    return _rq(app, v, 'GET', '/allocation_candidates?' + qs)


def alloc_body(v, project=True, form=None, gen=True, ctype=True, mappings=False):
    form = form or ('dict' if v >= 12 else 'list')
    if form == 'list':
        allocs = [{'resource_provider': {'uuid': RP_B}, 'resources': {'VCPU': 1}}]
    else:
        allocs = {RP_B: {'resources': {'VCPU': 1}}}
    b = {'allocations': allocs}
    if project and v >= 8:
        b['project_id'] = 'proj1'
        b['user_id'] = 'user1'
    if gen and v >= 28:
        b['consumer_generation'] = None
    if ctype and v >= 38:
        b['consumer_type'] = 'TYPE1'
    if mappings:
        b['mappings'] = {'': [RP_B]}
    return b


NEW_CONS = U(7, ops.K_CONS)


def _reparent_inside(app, v):
    """grandchild G under B (child of A): move G directly under A - same tree, different parent"""
    g = U(50)
    r = _rq(app, 39, 'POST', '/resource_providers', {'name': 'grand', 'uuid': g, 'parent_provider_uuid': RP_B})
    assert r.status < 300, r.status
    return _rq(app, v, 'PUT', '/resource_providers/%s' % g, {'name': 'grand', 'parent_provider_uuid': RP_A}).status == 200


def _unparent(app, v):
    g = U(51)
    r = _rq(app, 39, 'POST', '/resource_providers', {'name': 'grand2', 'uuid': g, 'parent_provider_uuid': RP_A})
    assert r.status < 300, r.status
    return _rq(app, v, 'PUT', '/resource_providers/%s' % g, {'name': 'grand2', 'parent_provider_uuid': None}).status == 200


def reshaper_body(v, mappings=False, ctype=True):
    c = alloc_body(max(v, 28), form='dict', mappings=mappings, ctype=ctype)
    c['consumer_generation'] = None
    return {'inventories': {RP_B: {'resource_provider_generation': 1, 'inventories': {
        'VCPU': {'total': 16}, 'MEMORY_MB': {'total': 4096}, 'DISK_GB': {'total': 100}}}},
        'allocations': {NEW_CONS: c}}


def feat_links(rel):
    def f(app, v):
        r = _rq(app, v, 'GET', '/resource_providers/%s' % RP_A)
        return any(l['rel'] == rel for l in r.json.get('links', []))
    return f


def not400(r):
    return r.status != 400


FEATURES = [
    # (name, introduced, probe(app, v) -> feature observably present)
    ('aggregates link in provider links', 1, feat_links('aggregates')),
    ('member_of on GET /resource_providers', 3,
     lambda a, v: not400(_rq(a, v, 'GET', '/resource_providers?member_of=%s' % AGG))),
    ('resources on GET /resource_providers', 4,
     lambda a, v: not400(_rq(a, v, 'GET', '/resource_providers?resources=VCPU:1'))),
    ('traits link in provider links', 6, feat_links('traits')),
    ('bodiless PUT /resource_classes/{name}', 7,
     lambda a, v: _rq(a, v, 'PUT', '/resource_classes/CUSTOM_N0').status in (201, 204)),
    ('project_id and user_id required in PUT /allocations', 8,
     lambda a, v: _rq(a, v, 'PUT', '/allocations/%s' % NEW_CONS, alloc_body(v, project=False)).status == 400),
    ('allocations link in provider links', 11, feat_links('allocations')),
    ('dict-form allocations in PUT /allocations', 12,
     lambda a, v: not400(_rq(a, v, 'PUT', '/allocations/%s' % NEW_CONS, alloc_body(v, form='dict')))),
    ('project_id in GET /allocations/{c}', 12,
     lambda a, v: 'project_id' in _rq(a, v, 'GET', '/allocations/%s' % CONS_A).json),
    ('parent_provider_uuid in provider representation', 14,
     lambda a, v: 'parent_provider_uuid' in _rq(a, v, 'GET', '/resource_providers/%s' % RP_B).json),
    ('parent_provider_uuid accepted in POST /resource_providers', 14,
     lambda a, v: not400(_rq(a, v, 'POST', '/resource_providers',
                             {'name': 'child9', 'uuid': U(9), 'parent_provider_uuid': RP_A}))),
    ('in_tree on GET /resource_providers', 14,
     lambda a, v: not400(_rq(a, v, 'GET', '/resource_providers?in_tree=%s' % RP_A))),
    ('last-modified and cache-control headers', 15,
     lambda a, v: 'last-modified' in _rq(a, v, 'GET', '/resource_providers').headers),
    ('limit on allocation candidates', 16, lambda a, v: _cand(a, v, 'resources=VCPU:1&limit=1').status == 200),
    ('required on allocation candidates', 17,
     lambda a, v: _cand(a, v, 'resources=VCPU:1&required=HW_CPU_X86_AVX').status == 200),
    ('traits in provider summaries', 17,
     lambda a, v: (lambda r: r.status == 200 and all('traits' in s for s in r.json['provider_summaries'].values())
                   and bool(r.json['provider_summaries']))(_cand(a, v, 'resources=VCPU:1'))),
    ('required on GET /resource_providers', 18,
     lambda a, v: not400(_rq(a, v, 'GET', '/resource_providers?required=HW_CPU_X86_AVX'))),
    ('generation in aggregates representation', 19,
     lambda a, v: 'resource_provider_generation' in (_rq(a, v, 'GET', '/resource_providers/%s/aggregates' % RP_A).json or {})),
    ('POST /resource_providers returns 200 with a body', 20,
     lambda a, v: _rq(a, v, 'POST', '/resource_providers', {'name': 'p8', 'uuid': U(8)}).status == 200),
    ('member_of on allocation candidates', 21,
     lambda a, v: _cand(a, v, 'resources=VCPU:1&member_of=%s' % AGG).status == 200),
    ('forbidden traits in required', 22,
     lambda a, v: _cand(a, v, 'resources=VCPU:1&required=!HW_CPU_X86_AVX').status == 200),
    ('forbidden traits on GET /resource_providers', 22,
     lambda a, v: _rq(a, v, 'GET', '/resource_providers?required=!HW_CPU_X86_AVX').status == 200),
    ('code in error responses', 23,
     lambda a, v: 'code' in _rq(a, v, 'GET', '/resource_providers/%s' % U(99)).json['errors'][0]),
    # ... whoever produces the error: a handler (above), the router (404 / 405), the application's header checks (400),
    # the version window of a handler (405 below its introduction), the policy check (403), a schema (400), a conflict (409)
    ('code in the 404 of an unknown route', 23,
     lambda a, v: 'code' in (_rq(a, v, 'GET', '/no_such_route').json or {'errors': [{}]})['errors'][0]),
    ('code in the 405 of an undeclared method', 23,
     lambda a, v: 'code' in (_rq(a, v, 'PATCH', '/resource_providers').json or {'errors': [{}]})['errors'][0]),
    ('code in the 400 of a body without content type', 23,
     lambda a, v: 'code' in (a.request('PUT', '/resource_providers/%s' % RP_A, body=None, version='1.%d' % v,
                                       headers=dict(SVC, **{'content-length': '2'})).json or {'errors': [{}]})['errors'][0]),
    ('code in the 403 of the policy check', 23,
     lambda a, v: 'code' in (a.request('GET', '/resource_providers', version='1.%d' % v,
                                       headers={'x-roles': 'member'}).json or {'errors': [{}]})['errors'][0]),
    ('code in the 400 of a schema violation', 23,
     lambda a, v: 'code' in (_rq(a, v, 'POST', '/resource_providers', {'name': 1}).json or {'errors': [{}]})['errors'][0]),
    ('code in the 409 of a generation conflict', 23,
     lambda a, v: 'code' in (_rq(a, v, 'PUT', '/resource_providers/%s/traits' % RP_A,
                                 {'resource_provider_generation': 9999, 'traits': []}).json or {'errors': [{}]})['errors'][0]),
    ('repeated member_of on GET /resource_providers', 24,
     lambda a, v: _rq(a, v, 'GET', '/resource_providers?member_of=%s&member_of=%s' % (AGG, AGG)).status == 200),
    ('granular request groups', 25,
     lambda a, v: _cand(a, v, 'resources1=VCPU:1&resources2=DISK_GB:1&group_policy=none').status == 200),
    ('reserved equal to total accepted', 26,
     lambda a, v: _rq(a, v, 'PUT', '/resource_providers/%s/inventories/VCPU' % RP_SPARE,
                      {'resource_provider_generation': 2, 'total': 4, 'reserved': 4}).status == 200),
    ('all classes in provider summaries', 27,
     lambda a, v: (lambda r: r.status == 200 and any('DISK_GB' in s['resources']
                                                     for s in r.json['provider_summaries'].values()))(
         _cand(a, v, 'resources=VCPU:1'))),
    ('consumer_generation in GET /allocations/{c}', 28,
     lambda a, v: 'consumer_generation' in _rq(a, v, 'GET', '/allocations/%s' % CONS_A).json),
    ('consumer_generation required in PUT /allocations', 28,
     lambda a, v: _rq(a, v, 'PUT', '/allocations/%s' % NEW_CONS, alloc_body(v, gen=False)).status == 400
     and v >= 12),
    ('root_provider_uuid in provider summaries', 29,
     lambda a, v: (lambda r: r.status == 200 and bool(r.json['provider_summaries']) and all(
         'root_provider_uuid' in s for s in r.json['provider_summaries'].values()))(_cand(a, v, 'resources=VCPU:1'))),
    ('in_tree on allocation candidates', 31,
     lambda a, v: _cand(a, v, 'resources=VCPU:1&in_tree=%s' % RP_A).status == 200),
    ('forbidden aggregates in member_of', 32,
     lambda a, v: _cand(a, v, 'resources=VCPU:1&member_of=!%s' % AGG).status == 200),
    ('forbidden aggregates on GET /resource_providers', 32,
     lambda a, v: _rq(a, v, 'GET', '/resource_providers?member_of=!%s' % AGG).status == 200),
    ('string request group suffixes', 33,
     lambda a, v: _cand(a, v, 'resources_COMPUTE=VCPU:1&resources_DISK=DISK_GB:1&group_policy=none').status == 200),
    ('mappings in allocation requests', 34,
     lambda a, v: (lambda r: r.status == 200 and bool(r.json['allocation_requests']) and all(
         'mappings' in x for x in r.json['allocation_requests']))(_cand(a, v, 'resources=VCPU:1'))),
    ('mappings accepted in PUT /allocations', 34,
     lambda a, v: not400(_rq(a, v, 'PUT', '/allocations/%s' % NEW_CONS, alloc_body(v, mappings=True))) and v >= 12),
    ('mappings accepted in POST /allocations', 34,
     lambda a, v: not400(_rq(a, v, 'POST', '/allocations', {NEW_CONS: alloc_body(max(v, 12), mappings=True, form='dict')}))
     and v >= 13),
    ('mappings accepted in POST /reshaper', 34,
     lambda a, v: not400(_rq(a, v, 'POST', '/reshaper', reshaper_body(v, mappings=True))) and v >= 30),
    ('root_required on allocation candidates', 35,
     lambda a, v: _cand(a, v, 'resources=VCPU:1&root_required=HW_CPU_X86_AVX').status == 200),
    ('same_subtree on allocation candidates', 36,
     lambda a, v: _cand(a, v, 'resources1=VCPU:1&resources2=DISK_GB:1&group_policy=none&same_subtree=1,2').status == 200),
    ('re-parenting a provider', 37,
     lambda a, v: _rq(a, v, 'PUT', '/resource_providers/%s' % RP_B, {'name': 'rpB', 'parent_provider_uuid': RP_SPARE}).status == 200),
    ('re-parenting a provider inside its tree', 37,
     lambda a, v: _reparent_inside(a, v)),
    ('un-parenting a provider', 37,
     lambda a, v: _unparent(a, v)),
    ('consumer_type in GET /allocations/{c}', 38,
     lambda a, v: 'consumer_type' in _rq(a, v, 'GET', '/allocations/%s' % CONS_A).json),
    ('consumer_type required in PUT /allocations', 38,
     lambda a, v: _rq(a, v, 'PUT', '/allocations/%s' % NEW_CONS, alloc_body(v, ctype=False)).status == 400
     and v >= 28),
    ('consumer_type required in POST /allocations', 38,
     lambda a, v: _rq(a, v, 'POST', '/allocations', {NEW_CONS: alloc_body(max(v, 12), ctype=False, form='dict')}).status == 400
     and v >= 28),
    ('consumer_type required in POST /reshaper', 38,
     lambda a, v: _rq(a, v, 'POST', '/reshaper', reshaper_body(v, ctype=False)).status == 400 and v >= 30),
    ('consumer_generation required in POST /allocations', 28,
     lambda a, v: _rq(a, v, 'POST', '/allocations', {NEW_CONS: alloc_body(max(v, 12), gen=False, form='dict')}).status == 400
     and v >= 13),
    ('consumer_type accepted in PUT /allocations', 38,
     lambda a, v: not400(_rq(a, v, 'PUT', '/allocations/%s' % NEW_CONS, dict(alloc_body(v, ctype=False), consumer_type='TYPE1')))
     and v >= 12),
    ('consumer_generation accepted in PUT /allocations', 28,
     lambda a, v: not400(_rq(a, v, 'PUT', '/allocations/%s' % NEW_CONS, dict(alloc_body(v, gen=False), consumer_generation=None)))
     and v >= 12),
    ('parent_provider_uuid accepted in PUT /resource_providers/{uuid}', 14,
     lambda a, v: not400(_rq(a, v, 'PUT', '/resource_providers/%s' % RP_B, {'name': 'rpB', 'parent_provider_uuid': RP_A}))),
    ('consumer_type filter on GET /usages', 38,
     lambda a, v: _rq(a, v, 'GET', '/usages?project_id=proj1&consumer_type=TYPE1').status == 200),
    ('generation required in PUT aggregates', 19,
     lambda a, v: _rq(a, v, 'PUT', '/resource_providers/%s/aggregates' % RP_SPARE, [AGG]).status == 400 and v >= 1),
    ('in: syntax in required', 39,
     lambda a, v: _rq(a, v, 'GET', '/resource_providers?required=in:HW_CPU_X86_AVX,CUSTOM_T1').status == 200),
    ('repeated required on allocation candidates are all applied', 39,
     lambda a, v: all((lambda r: r.status == 200 and r.json['allocation_requests'] == [])(
         _cand(a, v, 'resources=VCPU:1&' + q))
         for q in ('required=CUSTOM_SPARE&required=HW_CPU_X86_AVX', 'required=HW_CPU_X86_AVX&required=CUSTOM_SPARE'))),
]


def feature_matrix(versions, on_probe, features=None):
    """Every feature probe at every version; one freshly populated application per version (each probe
    runs once per version and the probes do not disturb one another's preconditions)."""
    n = 0
    for v in versions:
        app = impl.App()
        setup_state(app)
        for name, intro, probe in (features or FEATURES):
            try:
                present = bool(probe(app, v))
                err = None
            except Exception as exc:      # a probe that cannot even read the response: feature absent
                present = False
                err = repr(exc)[:200]
            on_probe(v, name, intro, present, err)
            n += 1
        app.close()
    return n
