#!/usr/bin/env python3
"""Regenerate MANIFEST.json from the table below (kept in one place so that it stays valid)."""
import json
import os

HERE = os.path.dirname(os.path.abspath(__file__))
BASELINE = "cd /repo && /venv/bin/python -m pytest -ra -q -p no:cacheprovider --timeout=900 --continue-on-collection-errors"

SEQ_NOTE = ("Trusted: Coq 8.16.1 kernel (+vm_compute), no axioms (Print Assumptions: closed under the global context for every "
            "theorem); the hand-written executable model coq/Model/*.v is tied to /repo by differential execution on every run "
            "(generated request histories run on the real WSGI app on SQLite and inside Coq by vm_compute; status, error code, "
            "returned generation and full canonical table dump compared after every request), constants regenerated from /repo "
            "by translate/consts.py. Modelled, not verified: SQL as list functions, enginefacade rollback, JSON/webob parsing; "
            "requests are schema-valid (req_wf) - derived from the regenerated JSON schemas by theorem C15_valid_body_wf "
            "(Model/Json.v, Gen/GenSchemas.v, Model/Decode.v). The property quantifies over request sequences; two overlapping "
            "requests are additionally explored by the interleaving stream of harness/conc_extra.py (oracle only, C04 C08 C09 C10 C12).")
CHECKS = {
    'C01': ("proof", "Coq theorems C01_accepted_write / C01_overcommit_origin / C01_history over the executable model of the "
            "allocation write paths (PUT/POST allocations, reshaper) incl. the double-rounded capacity product, for all states, "
            "request shapes and histories; model tied to the code by differential histories + bit-exact float stream; the property's "
            "own oracle recomputes usage/capacity/units on the real service after every accepted write.",
            "6 C01", SEQ_NOTE, "Coq proof (induction over request lists, running-sum accumulator invariant) + vm_compute model/implementation correspondence + implementation oracle"),
    'C04': ("proof", "Under ALL schedules of Model/ConcAll.v: a request answered >= 300 changed no heavy table in any of its steps, at most one step of a request changes them (C04_rejected_no_trace_all_schedules, c04a_one_commit). Coq theorems C04_rejected_no_trace (every error exit of every write handler leaves all tables but "
            "projects/users/consumer types untouched, incl. removal of auto-created consumers on every failing path) and the "
            "complete-effect theorems for multi-consumer writes, inventory, trait and aggregate replacement; tied by differential "
            "histories; oracle compares full dumps around every rejected request on the real service.",
            "6 C04", SEQ_NOTE, "Coq proof (case analysis over handler exits) + vm_compute correspondence + dump-equality oracle"),
    'C08': ("proof", "Coq theorems C08_step / C08_invariant (referential integrity preserved by every request, hence in every "
            "reachable state), the five refusal theorems and C08_cascade; tied by differential histories; oracle runs the anti-joins "
            "on the real database dump after every request. Beyond the property's quantifier: Model/ConcAll.v (every request kind as "
            "its sequence of top-level transactions) - referential integrity is preserved under ALL schedules of any number of "
            "concurrent requests of any kind, under one stated hypothesis that is exactly a recorded known finding "
            "(C08_ri_all_schedules_partial / _refuted); the first proof attempt refuted the statement in three ways, two repaired in "
            "/repo (42072ba, 09e8fa2); every executed interleaving of the interleaving stream is replayed in that model.",
            "6 C08", SEQ_NOTE, "Coq invariant proof by induction over histories + vm_compute correspondence + anti-join oracle"),
    'C09': ("proof", "Coq theorems C09_step / C09_invariant (parent links form a forest with correct root pointers in every "
            "reachable state, incl. re-parenting/un-parenting of subtrees: subtree DFS proved exact) and the rejection theorems; "
            "tied by differential tree-heavy histories; oracle recomputes roots by climbing on the real dump. Beyond the property's "
            "quantifier: Model/ConcTree.v (PUT = load + save with the loaded parent) - the forest is preserved under ALL schedules of "
            "any number of concurrent requests of any kind (C09_forest_all_schedules), every executed interleaving of the "
            "interleaving stream is replayed in that model.",
            "6 C09", SEQ_NOTE, "Coq invariant proof (inductive chain predicate, fuelled DFS exactness) + vm_compute correspondence + root-climbing oracle"),
    'C10': ("proof", "Coq theorems: generations never decrease, errors change none, every inventory/trait/aggregate(>=1.19) change "
            "and every allocation write strictly increases the provider's / consumer's generation, reported generation = stored; "
            "tied by differential histories; oracle compares generation columns and response generations on the real service; "
            "provider and consumer generations are monotone along ALL schedules of Model/Conc.v (C10_*_monotone_all_schedules); exact "
            "accounting along all schedules of Model/ConcAll.v (every request kind a thread): final generation = initial + the "
            "increments of the requests answered with success, a request answered >= 300 moves no provider generation, a successful one "
            "moves it within the bounds of its kind (C10_accounting_all_schedules, C10_accounting_per_request, C10_bounds_by_kind).",
            "6 C10", SEQ_NOTE, "Coq proof (compare-and-swap lemmas per mutator) + vm_compute correspondence + generation oracle"),
    'C12': ("proof", "Under ALL schedules of Model/ConcAll.v: a consumer record without allocations is always owed by an unfinished request (C12_stray_is_owed) and when every request is answered the invariant holds again (C12_final_state). Coq theorems C12_step / C12_invariant (consumer exists iff it holds allocations, in every reachable state), "
            "C12_attrs, C12_recreate; tied by differential consumer-heavy histories across the version bands; oracle checks the "
            "consumers/allocations anti-join and attributes after every request.",
            "6 C12", SEQ_NOTE, "Coq invariant proof by induction over histories + vm_compute correspondence + anti-join oracle"),
    'C14': ("proof", "Coq theorems over tables regenerated from /repo on every run (routing table, version windows of every handler "
            "overload, in-handler version gates, VERSIONS): availability for all 40 versions x all routes x all methods equals the "
            "documented surface (complete finite domain, vm_compute + forallb_forall), handler change points equal the documented "
            "ones, negotiation for any requested version; C14_fields: every documented request member and query parameter (50 entries) "
            "is rejected below and accepted/required from its documented version by the schema the operation validates with at each "
            "version, read off the JSON schemas REGENERATED from placement/schemas (1593 facts; the schema-per-version table is learnt "
            "from the running code on every run); C14_response_fields / C14_no_undocumented_response_member: every documented RESPONSE "
            "member, header and status (355 entries transcribed from the API reference, 13 417 facts) is emitted by the model of the "
            "serialisers exactly from its documented version on, and the model emits nothing undocumented except one recorded "
            "disagreement (cache headers on PUT /traits/{name}); that model is tied to the code on every run by comparing the member "
            "paths, headers and status of one real answer per operation and version (1 639 comparisons) with the model evaluated in "
            "Coq; plus exhaustive probing of the real service (6 281 availability probes, 61 versioned features x 40 versions, headers).",
            "6 C14", "Trusted: kernel, translate/routes.py (ast reader, fail-closed), the documented surface transcribed by hand "
            "into spec/surface.json (request and response members), microversion_parse modelled; Spec/RespFields.v is a hand-written "
            "model of the serialisers, validated by the per-answer tie.",
            "Coq finite-domain proof over regenerated tables (translator) + exhaustive surface probing"),
    'C16': ("proof", "Coq theorems over the regenerated routing/decorator/policy tables and a pipeline model with an arbitrary "
            "handler body, state type and policy: every routed operation checks its documented rule before any effect, 401 without "
            "credentials, a denied caller never reaches the body (state unchanged, 403 unless a caller-independent 404/405/406/415), "
            "defaults for every role combination, single-rule overrides are local; plus the exhaustive authorisation matrix on the "
            "real service (status, SQL statements before the 403, dump).",
            "6 C16", "Trusted: kernel, translate/routes.py (check-first flag = no effectful statement precedes context.can, by ast "
            "whitelist), oslo.policy evaluation modelled; keystonemiddleware not exercised (noauth2).",
            "Coq proof over regenerated tables (translator) + exhaustive authorisation matrix"),
}
CONC_NOTE = ("Trusted: Coq 8.16.1 kernel (+vm_compute), no axioms; Model/Conc.v and, for every request kind, Model/ConcAll.v (requests as explicit thread state machines, one step = "
             "one top-level database transaction, the retry loop of replace_all with its partial work) is tied to /repo by executing "
             "generated scenarios under enumerated interleavings on the real WSGI app (deterministic scheduler: one thread per request on a "
             "file-backed SQLite database, parked between top-level transactions touching core tables) and inside Coq, comparing statuses and "
             "core table dumps for every executed schedule. Assumes, as the property does, that each transaction is atomic and isolated.")
CHECKS.update({
    'C05': ("proof", "For EVERY request kind as a thread (Model/ConcAll.v), any number of requests, any schedule: a request holding generation g for provider u that is answered with success committed when u's stored generation was g, and among the requests holding the same g for the same u at most one changes anything (C05_commit_generation_all_kinds, C05_at_most_one_all_kinds). Coq theorems over ALL schedules of ANY number of concurrent requests: a request carrying provider generation g "
            "succeeds only if g is the provider's generation in its committing transaction; at most one of the requests carrying the same "
            "generation succeeds with an effect; a rejected provider write changes nothing; self-derived generations are validated at commit. "
            "Tie: schedule correspondence; oracle: at-most-one / error code / serial equivalence on the real service for every executed "
            "interleaving (targeted gap schedules + depth-first enumeration).",
            "6 C05", CONC_NOTE, "Coq proof by induction over schedules (generation monotonicity + compare-and-swap lemmas) + exhaustive-per-scenario schedule correspondence"),
    'C06': ("proof", "For EVERY request kind as a thread (Model/ConcAll.v), any schedule: what a transaction may do to a consumer by the request's answer, exact accounting of consumer generations per stretch of a consumer's life, a success holding generation g for consumer c commits against stored generation g, at most one of the holders of g (and of the null-carriers) has an effect - with c_alive / c_no_end as stated, necessary hypotheses (C06_commit_generation_all_kinds, C06_at_most_one_all_kinds, C06_null_at_most_one, C10_consumer_accounting). Coq theorems over all schedules: a write naming consumer c with generation g commits only against generation g (null: "
            "only if it created c itself); at most one of the writes carrying the same generation for an existing consumer succeeds. Two "
            "benign anomalies of the real service are recorded as known findings (double wipe; success on a consumer created by a failed "
            "request) and are exactly the extra hypotheses of the theorems. Tie and oracle as C05.",
            "6 C06", CONC_NOTE, "Coq proof by induction over schedules + schedule correspondence + implementation oracle"),
    'C07': ("proof", "Coq theorems over all schedules: C07_no_joint_overcommit (no schedule of allocation writes over-commits an inventory); "
            "C07_serializable_partial (the successful requests executed serially in commit order give the same responses and core state) "
            "under the hypotheses that named consumers pre-exist, no consumer is wiped twice and requests complete; C07_refuted exhibits the "
            "schedule that falsifies the unrestricted statement (known finding). Tie: schedule correspondence; oracle: serial replay of the "
            "successful requests in every permutation on the real service for every executed interleaving.",
            "6 C07", CONC_NOTE, "Coq proof (commit-order serial log invariant by induction over schedules) + refutation witness by vm_compute + schedule correspondence + serial-replay oracle"),
    'C17': ("proof", "Coq theorems over Model/Fault.v (the SQL statements of _set_allocations with the Python objects' generations, under "
            "wrap_db_retry inside the caller's transaction): the statement model equals the transaction function used everywhere else; a "
            "deadlock at any statement up to the first compare-and-swap is retried with exactly the fault-free effect, for every request "
            "size (after it: refuted - known finding); with a database-side rollback the write is re-run on the committed state (the "
            "enclosing transaction's earlier work is lost - known finding); retried top-level transactions apply their effect exactly "
            "once; a non-retryable error in any non-clean-up transaction of any request gives 500 and an unchanged core state. Tie: one "
            "fault injected at every SQL statement of a corpus covering all write routes (deadlock with/without rollback, duplicate key, "
            "connection error, start-up sync) on the real service; deadlock positions compared with the model's prediction.",
            "6 C17", "Trusted: kernel; the database's atomic rollback of a failing top-level transaction; faults are exceptions raised "
            "from SQLAlchemy hooks; rb emulated by rolling back the DBAPI connection. Three families of known findings are classified by "
            "fault kind and position (known_findings.json).",
            "Coq proof by induction over the statement list + fault injection at every statement (fault enumeration) as correspondence"),
    'C18': ("proof", "Coq theorems for every crash point n (number of committed transactions) of every request: referential integrity, forest, "
            "capacity safety relative to the start state, all-or-nothing of providers/inventories/allocations/associations, and the only "
            "residue being allocation-less consumers the request names. Tie: a crash (BaseException) injected before every SQL statement and "
            "every commit of a write corpus covering all write routes; each crashed database must be one of the model's crash states; the "
            "property's oracle is evaluated on every crashed database.",
            "6 C18", "Trusted: kernel; Model/Crash.v over Model/Conc.v; the database rolls back the transaction in flight when the process "
            "dies (assumed; exercised on SQLite by the crash-injection stream).",
            "Coq proof by induction over the request's transactions + crash injection at every statement/commit (fault enumeration) as correspondence"),
    'C19': ("proof", "Coq theorems: start-up sync of classes/traits is complete with fixed ids, idempotent and leaves custom rows alone from "
            "any well-formed table; standard names cannot be deleted/renamed/created through the API; every name accepted by the schema "
            "patterns REGENERATED from /repo (regex AST incl. the end anchor) is CUSTOM_ + [A-Z0-9_]+ of at most 255 characters; custom class "
            "ids are >= 10000, unique, existing names answered 204/409. Tie: names translator + regex model validated against CPython re, "
            "name-heavy differential histories, start-up sync from empty/partial/full tables compared with the model, edge names through "
            "every creating route; oracle scans the real tables.",
            "6 C19", SEQ_NOTE + " translate/names.py parses the regular expressions (fail-closed).",
            "Coq proof over regenerated patterns (translator) and the sync / handler models + correspondence streams"),
    'C20': ("proof", "Coq theorems about limit_results for ANY allocation-request type and ANY random.sample / random.shuffle meeting their "
            "contracts (hypotheses of the theorems): limit=N yields exactly min(N,M) distinct requests of the unlimited result with covering "
            "summaries; randomised unlimited result is a permutation; without randomisation a limited answer is the prefix of the unlimited "
            "list. For the candidate-search model (C20_code_limit, C20_code_limit_reachable): whatever the search returns, limited, is the "
            "prefix of the unlimited list with min(N,M) entries, pairwise distinct as requests, with covering summaries that are among the "
            "unlimited ones - in every reachable state. Found by that proof and recorded as a known finding: below 1.34 requests differing "
            "only in their (not yet shown) mappings are identical entries, so 'distinct' fails as far as the client can see "
            "(C20_shown_duplicates_below_134; confirmed on the application). Tie: the real limit_results function is executed on generated inputs (random patched to a deterministic sample/shuffle "
            "mirrored in Coq); oracle: every limit 1..M+1 x both config settings x seeds over HTTP; run-to-run order determinism is monitored "
            "only (labelled).",
            "6 C20", "Trusted: kernel; sample_contract / shuffle_contract are explicit hypotheses (CPython random); the order of the unlimited "
            "list (set/dict iteration, SQLite row order) is not modelled.",
            "Coq proof with the random choice as a universally quantified oracle + object-level differential execution of limit_results"),
    'C15': ("proof", "Coq theorems: (a) no write request of the model, in ANY state and at any microversion, is answered with a status "
            ">= 500, the same behind the front pipeline computed from the regenerated route tables, a front rejection leaves the state "
            "alone, a rejected request (>= 400) leaves the core state unchanged, and the model's error answers are the entries of the "
            "exception table regenerated from the handlers' try statements; (b) none of the eight query-string VALUE parsers of util.py / "
            "lib.py (Model/Parse.v: Python exception semantics, str.split/strip, int() over all Unicode digit blocks, is_uuid_like) ends in "
            "an exception other than HTTPBadRequest, for arbitrary strings, and what they accept is well formed; (c) a request body "
            "accepted by python-jsonschema under the schema its route uses at ANY minor version (52 schemas REGENERATED from "
            "placement/schemas on every build, validator Model/Json.v) decodes (Model/Decode.v) to a request satisfying req_wf - the "
            "assumption of the sequential theorems - with two refutations kept as theorems (PUT traits admits repeats; allocation_ratio "
            "NaN/-Infinity is schema-valid: a 500 found by this proof attempt, fix df933f2). PARTIAL: splitting text into values (webob, "
            "json.loads), the JSON error document and the read routes behind the parsers are covered by testing only: the mutation stream "
            "and the boundary stream (every single-node boundary variant of every valid write body, schema learnt from the running code, "
            "sent over HTTP). Tie: differential histories; value parsers, schema validator, decoders and schema choice compared with "
            "the running code on every run.",
            "6 C15", SEQ_NOTE + " Stored state = nine core tables (project/user/consumer-type name rows excluded, as for C04). CPython "
            "builtins and python-jsonschema semantics are modelled and compared with the running interpreter/library on every run.",
            "Coq proof (case analysis over every handler and exception; pipeline over regenerated tables; parser model; schema shapes over "
            "the regenerated schemas) + correspondence streams; mutation and boundary streams as search for failing inputs"),
    'C13': ("proof", "Coq theorems: for any state with unique provider uuids and any filters whose trait / class names exist, GET "
            "/resource_providers of the model (which follows _get_all_by_filters_from_db stage by stage) lists EXACTLY the existing providers "
            "that satisfy every supplied filter (rp_matches: name, uuid, in_tree, member_of incl. in:/!/!in:, required incl. in:/!, resources "
            "with capacity, min/max unit and step), each once; unknown in_tree / uuid / aggregates give the empty list; the answer is 400 "
            "exactly when a filter is unavailable at the microversion or names an unknown trait or class. From the query string "
            "(Model/DecodeQ.v: dict(req.GET) validated against the regenerated query schema of the version, values read as the handler "
            "reads them through the value parsers of Model/Parse.v): never an escaping exception, 400 exactly when the schema or a value "
            "parser rejects, and every accepted query satisfies the version gates the listing theorems assume (C13_query_accepted_wf). "
            "Tie: generated states and listing queries on the real application compared with the model inside Coq; the REAL handler called "
            "on generated query strings with the filters it builds captured and compared with the decoder; a disagreement is reported as "
            "a concrete failing query.",
            "6 C13", SEQ_NOTE + " Query-string parsing is modelled as version gates over parsed filters.",
            "Coq proof of model = declarative specification + differential execution of generated listings (correspondence)"),
    'C03': ("proof", "PARTIAL and refuted in named corners. Proved: the executable specification spec_candidates enumerates exactly the "
            "`valid` combinations of the property (sound, complete up to same_creq, distinct); the slot conditions mean what the property "
            "says (room, traits, aggregates, tree); the code model's per-group single-provider search equals the specification's slot "
            "condition; on the fragment 'no sharing provider, every group suffixed' (any number of groups, group_policy, same_subtree, "
            "root_required, in_tree, member_of, any microversion) the whole pipeline returns exactly the specification's combinations "
            "(C03_suffixed_only_exact); with the unsuffixed group too (resources spread over one tree - the shape nova sends), still "
            "without sharing providers, everything the pipeline returns is a valid combination (C03_no_sharing_sound; its one extra "
            "hypothesis, each class named once, is derived for every accepted query string: C03_accepted_un_rcs_nodup) and nothing valid "
            "is omitted: WITHOUT SHARING PROVIDERS THE PIPELINE RETURNS EXACTLY THE PROPERTY'S SET FOR EVERY QUERY (C03_no_sharing_exact, "
            "C03_no_sharing_verdict); WITH sharing providers too, on every table whose aggregate associations name existing providers (an "
            "invariant of reachable states, C03_reachable_aggs_wf) everything returned is a valid combination (C03_sound), and under two "
            "computable conditions on query and state (in_tree_hyp, forbidden_aggs_hyp; each proved necessary by a reachable witness) "
            "nothing valid is omitted either (C03_exact_sharing, C03_exact_sharing_reachable); from the query string (Model/DecodeQC.v: regenerated query schemas + the lib.py request-group "
            "assembly + value parsers) every accepted query satisfies query_wf, the assumption of the candidate theorems "
            "(C03_query_accepted_wf); the whole chain from the accepted query string in a reachable state - soundness, conditional "
            "completeness, claimability at every microversion, limit - is packaged as C03_end_to_end (listing twin C13_end_to_end); tie: the real handler on generated query strings with the search replaced by a capture). NOT proved: completeness with sharing providers - it is FALSE: theorems "
            "C03_refuted_anchor_dedup, C03_refuted_in_tree_pin and C03_needs_forbidden_aggs_hyp exhibit states and queries (replayed on the application on every run, "
            "known findings) on which valid candidates are omitted; a nested sharing provider gives 500 (known finding). Elsewhere equality "
            "is COMPARED, not proved: every generated case is evaluated three ways inside Coq (application answer, code model, "
            "specification); any unclassified difference is a violation with the query as replay.",
            "6 C03", SEQ_NOTE + " Bounded scope of the property (<= 7 providers, <= 3 trees) is the generator's scope; the theorems are unbounded.",
            "Coq proof (specification soundness/completeness, per-stage equality, refutation witnesses by vm_compute) + three-way differential "
            "execution as correspondence and search for failing inputs"),
    'C02': ("proof", "Proved for the code model's candidates, sharing providers included (C02_code_claimable_reachable, through the "
            "soundness of the search C03_sound): in every state reached by well-formed requests, whatever the candidate search returns "
            "as a list, sent as returned as the allocations of a new consumer (at any microversion, with the members a client of that version sends), is answered 204 by the allocation-write model "
            "- consumer creation, provider look-ups, capacity and unit checks and both compare-and-swaps included; the claim is a legal "
            "request and the state after it is reachable again; no hypothesis on the database is left (Forest, RI and non-negative usage "
            "are proved invariants), one on the query (each class once in the unsuffixed group) is derived for accepted query strings. "
            "Also: every provider named by a candidate exists, every supplying provider has the summary derived from the stored state, "
            "one row per (provider, class); for the specification's candidates amounts add up and groups are placed in full. Not "
            "covered by theorems: KeyError / order-dependent answers (no list returned - recorded C03/C15 findings). "
            "The check claims up to 12 candidates of every answer on the real application (PUT /allocations for a new consumer at the "
            "query's microversion -> 204) and recomputes amounts, mappings and provider summaries from the stored tables.",
            "6 C02", SEQ_NOTE,
            "Coq proof (pipeline invariant for providers/summaries; claimability against the write model) + three-way differential execution "
            "+ claiming every returned candidate on the application (oracle)"),
    'C11': ("proof", "Coq theorems: in every state reachable by well-formed requests, every read route of the model (provider, inventories, "
            "single inventory, usages, allocations by provider and by consumer, traits, aggregates, total usages by project/user/consumer "
            "type, the trait listing with its name=in: and associated= filters, a single trait, the class listing, a single class; every microversion) equals the reference semantics spec_view evaluated on the abstraction of the database (refinement, "
            "from RI of C08, Forest of C09, uniqueness of consumer uuids and - for associated=true only - of trait names, all proved invariants); provider usage = sum of allocation "
            "records = sum over consumers of what GET /allocations/{c} reports; per-consumer and per-provider views agree; accepted "
            "inventory / trait / aggregate / allocation writes and created / renamed / deleted classes and traits are read back exactly (read-after-write); a request answered with an error "
            "changes no read; reads after any history equal reads after only its successful requests. Tie: (1) write histories model vs "
            "application (status, code, generation, tables), (2) after every request of generated histories the read routes for every "
            "provider/consumer/project/class/trait of the pools at the microversions around each representation change, compared inside Coq with the "
            "model's views; implementation-side oracle (usage sums, view agreement, reads unchanged after errors) searches failing inputs.",
            "6 C11", SEQ_NOTE + " JSON field naming per microversion is compared through harness/reads.py:canon, not proved; provider listing "
            "and allocation candidates are C13/C03; GET /traits?name=startswith: is not modelled.",
            "Coq refinement proof (reads vs abstract reference semantics; invariants by induction over requests) + differential execution "
            "of reads and writes (correspondence)"),
})
PENDING = {
}


NOT_YET = {}


def main():
    checks = []
    for pid in sorted(CHECKS):
        if pid in NOT_YET:
            continue
        cat, text, ref, note, tech = CHECKS[pid]
        checks.append({
            'property_id': pid,
            'quick_cmd': './check %s --tier quick' % pid,
            'thorough_cmd': './check %s --tier thorough' % pid,
            'evidence_file': '/verif/evidence/%s.json' % pid,
            'replay_cmd_template': './check %s --replay {path}' % pid,
            'engine': 'coq+harness',
            'level_claimed': {'category': cat, 'text': text, 'design_ref': 'DESIGN.md section ' + ref},
            'level_note': note,
            'technique': tech,
        })
    m = {
        'version': 1,
        'setup_cmd': './build.sh',
        'hooks': {'guard': 'PLACEMENT_VERIF', 'enable': 'none required: the checks use SQLAlchemy engine events, oslo.config '
                  'overrides and WSGI only; no source hooks exist', 'baseline_off_cmd': BASELINE,
                  'source_commits': [], 'add_only': True},
        'engines': [{'name': 'coq+harness', 'path': '/verif/check', 'serves_properties': sorted(p for p in CHECKS if p not in NOT_YET),
                     'kind_free_text': 'Coq 8.16.1 development (coq/) + Python harness driving the real WSGI app (harness/)'}],
        'checks': checks,
        'not_applicable': [{'property_id': p, 'reason': r} for p, r in sorted(list(PENDING.items()) + list(NOT_YET.items()))
                           if p not in CHECKS or p in NOT_YET],
        'notes': 'Genuine defects repaired in /repo by "fix:" commits and defects recorded as known findings: see known_findings.json '
                 '(kind=fixed / kind=known) and DESIGN.md section 7. Seeded breaking changes used to test the checks: seeded/.',
    }
    json.dump(m, open(os.path.join(HERE, 'MANIFEST.json'), 'w'), indent=1)


if __name__ == '__main__':
    main()
