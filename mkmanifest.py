#!/usr/bin/env python3
"""Regenerate MANIFEST.json from the table below (kept in one place so that it stays valid)."""
import json
import os

HERE = os.path.dirname(os.path.abspath(__file__))
BASELINE = "cd /repo && /venv/bin/python -m pytest -ra -q -p no:cacheprovider --timeout=900 --continue-on-collection-errors"

SEQ_NOTE = ("Trusted: Coq 8.16.1 kernel (+vm_compute), no axioms (Print Assumptions: closed under the global context for every "
            "theorem); the hand-written executable model coq/Model/*.v is tied to /repo by differential execution on every run "
            "(generated request histories run on the real WSGI app on SQLite and inside Coq by vm_compute; status, error code, "
            "returned generation and full canonical table dump compared after every request), constants regenerated from /repo "
            "by translate/consts.py. Modelled, not verified: SQL as list functions, enginefacade rollback, JSON/webob parsing; "
            "requests are schema-valid (req_wf).")
CHECKS = {
    'C01': ("proof", "Coq theorems C01_accepted_write / C01_overcommit_origin / C01_history over the executable model of the "
            "allocation write paths (PUT/POST allocations, reshaper) incl. the double-rounded capacity product, for all states, "
            "request shapes and histories; model tied to the code by differential histories + bit-exact float stream; the property's "
            "own oracle recomputes usage/capacity/units on the real service after every accepted write.",
            "6 C01", SEQ_NOTE, "Coq proof (induction over request lists, running-sum accumulator invariant) + vm_compute model/implementation correspondence + implementation oracle"),
    'C04': ("proof", "Coq theorems C04_rejected_no_trace (every error exit of every write handler leaves all tables but "
            "projects/users/consumer types untouched, incl. removal of auto-created consumers on every failing path) and the "
            "complete-effect theorems for multi-consumer writes, inventory, trait and aggregate replacement; tied by differential "
            "histories; oracle compares full dumps around every rejected request on the real service.",
            "6 C04", SEQ_NOTE, "Coq proof (case analysis over handler exits) + vm_compute correspondence + dump-equality oracle"),
    'C08': ("proof", "Coq theorems C08_step / C08_invariant (referential integrity preserved by every request, hence in every "
            "reachable state), the five refusal theorems and C08_cascade; tied by differential histories; oracle runs the anti-joins "
            "on the real database dump after every request.",
            "6 C08", SEQ_NOTE, "Coq invariant proof by induction over histories + vm_compute correspondence + anti-join oracle"),
    'C09': ("proof", "Coq theorems C09_step / C09_invariant (parent links form a forest with correct root pointers in every "
            "reachable state, incl. re-parenting/un-parenting of subtrees: subtree DFS proved exact) and the rejection theorems; "
            "tied by differential tree-heavy histories; oracle recomputes roots by climbing on the real dump.",
            "6 C09", SEQ_NOTE, "Coq invariant proof (inductive chain predicate, fuelled DFS exactness) + vm_compute correspondence + root-climbing oracle"),
    'C10': ("proof", "Coq theorems: generations never decrease, errors change none, every inventory/trait/aggregate(>=1.19) change "
            "and every allocation write strictly increases the provider's / consumer's generation, reported generation = stored; "
            "tied by differential histories; oracle compares generation columns and response generations on the real service.",
            "6 C10", SEQ_NOTE, "Coq proof (compare-and-swap lemmas per mutator) + vm_compute correspondence + generation oracle"),
    'C12': ("proof", "Coq theorems C12_step / C12_invariant (consumer exists iff it holds allocations, in every reachable state), "
            "C12_attrs, C12_recreate; tied by differential consumer-heavy histories across the version bands; oracle checks the "
            "consumers/allocations anti-join and attributes after every request.",
            "6 C12", SEQ_NOTE, "Coq invariant proof by induction over histories + vm_compute correspondence + anti-join oracle"),
    'C14': ("proof", "Coq theorems over tables regenerated from /repo on every run (routing table, version windows of every handler "
            "overload, in-handler version gates, VERSIONS): availability for all 40 versions x all routes x all methods equals the "
            "documented surface (complete finite domain, vm_compute + forallb_forall), handler change points equal the documented "
            "ones, negotiation for any requested version; plus exhaustive probing of the real service (3800 availability probes, "
            "43 versioned features x 40 versions, headers).",
            "6 C14", "Trusted: kernel, translate/routes.py (ast reader, fail-closed), the documented surface transcribed by hand "
            "into spec/surface.json, microversion_parse modelled; request/response field features are decided by exhaustive probing, "
            "not by a theorem (labelled partial).",
            "Coq finite-domain proof over regenerated tables (translator) + exhaustive surface probing"),
    'C16': ("proof", "Coq theorems over the regenerated routing/decorator/policy tables and a pipeline model with an arbitrary "
            "handler body, state type and policy: every routed operation checks its documented rule before any effect, 401 without "
            "credentials, a denied caller never reaches the body (state unchanged, 403 unless a caller-independent 404/405/406/415), "
            "defaults for every role combination, single-rule overrides are local; plus the exhaustive authorisation matrix on the "
            "real service (status, SQL statements before the 403, dump).",
            "6 C16", "Trusted: kernel, translate/routes.py (check-first flag = no effectful statement precedes context.can, by ast "
            "whitelist), oslo.policy evaluation modelled; keystonemiddleware not exercised (noauth2).",
            "Coq proof over regenerated tables (translator) + exhaustive authorisation matrix"),
}
PENDING = {
    'C02': 'check not built yet (allocation-candidate model in progress)',
    'C03': 'check not built yet (allocation-candidate model in progress)',
    'C05': 'check not built yet (schedule model in progress)',
    'C06': 'check not built yet (schedule model in progress)',
    'C07': 'check not built yet (schedule model in progress)',
    'C11': 'check not built yet',
    'C13': 'check not built yet',
    'C15': 'check not built yet',
    'C17': 'check not built yet',
    'C18': 'check not built yet',
    'C19': 'check not built yet',
    'C20': 'check not built yet',
}


def main():
    checks = []
    for pid in sorted(CHECKS):
        cat, text, ref, note, tech = CHECKS[pid]
        checks.append({
            'property_id': pid,
            'quick_cmd': './check %s --tier quick' % pid,
            'thorough_cmd': './check %s --tier thorough' % pid,
            'evidence_file': '/verif/evidence/%s.json' % pid,
            'replay_cmd_template': './check %s --replay {path}' % pid,
            'engine': 'coq+harness',
            'level_claimed': {'category': cat, 'text': text, 'design_ref': 'DESIGN.md section ' + ref},
            'level_note': note,
            'technique': tech,
        })
    m = {
        'version': 1,
        'setup_cmd': './build.sh',
        'hooks': {'guard': 'PLACEMENT_VERIF', 'enable': 'none required: the checks use SQLAlchemy engine events, oslo.config '
                  'overrides and WSGI only; no source hooks exist', 'baseline_off_cmd': BASELINE,
                  'source_commits': [], 'add_only': True},
        'engines': [{'name': 'coq+harness', 'path': '/verif/check', 'serves_properties': sorted(CHECKS),
                     'kind_free_text': 'Coq 8.16.1 development (coq/) + Python harness driving the real WSGI app (harness/)'}],
        'checks': checks,
        'not_applicable': [{'property_id': p, 'reason': r} for p, r in sorted(PENDING.items()) if p not in CHECKS],
        'notes': 'fix: commits in /repo: 9ac319a (stray consumers). Known findings: known_findings.json.',
    }
    json.dump(m, open(os.path.join(HERE, 'MANIFEST.json'), 'w'), indent=1)


if __name__ == '__main__':
    main()
