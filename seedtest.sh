#!/bin/bash
# usage: seedtest.sh <patch> <PID> [tier]  -- apply a seeded change to /repo, run a check, undo.
set -u
PATCH=$1; PID=$2; TIER=${3:-quick}
cd /repo && git apply "$PATCH" || { echo "patch does not apply"; exit 9; }
cd /verif && ./check $PID --tier $TIER 2>&1 | grep -v 'conda.cli' | tail -6
echo "exit=${PIPESTATUS[0]}"
cd /repo && git checkout -- . && git status --short | head -3
