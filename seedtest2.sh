#!/bin/bash
# usage: seedtest2.sh <patch> <PID> [tier]
# Run a check against a seeded change WITHOUT touching /repo or /verif: a scratch worktree of /repo with the patch
# applied (VERIF_REPO) and a scratch copy of /verif (own build directory), both under /dev/shm, removed afterwards.
set -u
PATCH=$(readlink -f "$1"); PID=$2; TIER=${3:-quick}
R=/dev/shm/rseed_$$; V=/dev/shm/vseed_$$
git -C /repo worktree add -q --detach $R HEAD || exit 9
( cd $R && git apply "$PATCH" ) || { echo "patch does not apply"; git -C /repo worktree remove --force $R; exit 9; }
rsync -a --exclude .git --exclude work --exclude replays /verif/ $V/
( cd $V && VERIF_REPO=$R ./check $PID --tier $TIER 2>&1 | grep -v 'conda.cli' | tail -6 | cut -c1-400; echo "exit=${PIPESTATUS[0]}" )
git -C /repo worktree remove --force $R; rm -rf $V
