"""Compact source of the `response_fields` member of spec/surface.json (documentation, not code).

Transcribed by hand from /repo/api-ref/source/*.inc (the `Response` sections), api-ref/source/parameters.yaml (the
`min_version` annotations), api-ref/source/samples/*.json (shape of links / version documents), api-ref/source/errors.inc and
placement/rest_api_version_history.rst.  Run `python spec/response_fields_src.py` to rewrite the member in surface.json; the
member itself is what the translator and the harness read.

Notation: a path is written a/b/c; `*` = any key of a map keyed by data (uuid, resource class, trait, consumer type, request
group suffix), `[]` = an element of a list.  The member name `*` says "the map at this path is keyed by data" (so that a flat
usage map and a map of maps differ); a member `rel=<x>` under a links list says a link with that relation is present.
in = body | header | status.  introduced / removed are minor versions; removed = first version WITHOUT the member.
"""
import json
import os

HERE = os.path.dirname(os.path.abspath(__file__))
OUT = []


def op(route, method, intro, statuses, headers, body, src):
    """statuses: [(code, intro, removed)], headers: [(name, intro, removed)], body: [(path, name, intro, removed)]"""
    def add(where_in, where, field, i, r):
        e = {'route': route, 'method': method, 'in': where_in, 'where': where, 'field': field,
             'introduced': max(i, intro), 'src': src}
        if r is not None:
            e['removed'] = r
        OUT.append(e)
    for code, i, r in statuses:
        add('status', [], str(code), i, r)
    for name, i, r in [('openstack-api-version', 0, None), ('vary', 0, None)] + headers:
        add('header', [], name, i, r)
    for path, name, i, r in body:
        add('body', [p for p in path.split('/') if p], name, i, r)


def at(prefix, members, intro=0, removed=None):
    """members: names, or (name, intro[, removed]) tuples; all under one path"""
    res = []
    for m in members:
        if isinstance(m, str):
            res.append((prefix, m, intro, removed))
        else:
            res.append((prefix, m[0], max(m[1], intro), m[2] if len(m) > 2 else removed))
    return res


CACHE = [('last-modified', 15, None), ('cache-control', 15, None)]   # history 1.15: GET responses and PUT/POST responses with a body
LOCATION = [('location', 0, None)]


def links(prefix, rels, intro=0, removed=None):
    return at(prefix, ['links'], intro, removed) + at(prefix + '/links/[]', ['rel', 'href'] + rels, intro, removed)


# resource_provider_links: "Aggregates relationship link is available starting from version 1.1.  Traits ... 1.6.
# Allocations ... 1.11." (parameters.yaml); the other relations from samples/resource_providers/*.json
RP_LINKS = ['rel=self', 'rel=inventories', 'rel=usages', ('rel=aggregates', 1), ('rel=traits', 6), ('rel=allocations', 11)]


def provider(prefix, intro=0):
    return (at(prefix, ['uuid', 'name', 'generation', ('parent_provider_uuid', 14), ('root_provider_uuid', 14)], intro) +
            links(prefix, RP_LINKS, intro))


INV = ['total', 'reserved', 'min_unit', 'max_unit', 'step_size', 'allocation_ratio']


def rclass(prefix, intro=2, removed=None):
    return at(prefix, ['name'], intro, removed) + links(prefix, ['rel=self'], intro, removed)


# ------------------------------------------------------------------ root.inc
op('/', 'GET', 0, [(200, 0, None)], CACHE,
   at('', ['versions']) + at('versions/[]', ['id', 'min_version', 'max_version', 'status']) + links('versions/[]', ['rel=self']),
   'root.inc, samples/root/get-root.json')
# the empty path is declared next to '/' in the routing table and documented (availability) as the same resource
op('', 'GET', 0, [(200, 0, None)], CACHE,
   at('', ['versions']) + at('versions/[]', ['id', 'min_version', 'max_version', 'status']) + links('versions/[]', ['rel=self']),
   'root.inc (the same document as /)')
# ------------------------------------------------------------------ resource_classes.inc / resource_class.inc
op('/resource_classes', 'GET', 2, [(200, 2, None)], CACHE,
   at('', ['resource_classes'], 2) + rclass('resource_classes/[]'), 'resource_classes.inc')
op('/resource_classes', 'POST', 2, [(201, 2, None)], LOCATION, [], 'resource_classes.inc')
op('/resource_classes/{name}', 'GET', 2, [(200, 2, None)], CACHE, rclass(''), 'resource_class.inc')
# 1.2 - 1.6: 200 with the representation; from 1.7: 201 / 204, no body, Location
op('/resource_classes/{name}', 'PUT', 2, [(200, 2, 7), (201, 7, None), (204, 7, None)], [('location', 7, None)],
   rclass('', 2, 7), 'resource_class.inc (two sections: 1.2 - 1.6 and 1.7 -)')
op('/resource_classes/{name}', 'DELETE', 2, [(204, 2, None)], [], [], 'resource_class.inc')
# ------------------------------------------------------------------ resource_providers.inc / resource_provider.inc
op('/resource_providers', 'GET', 0, [(200, 0, None)], CACHE,
   at('', ['resource_providers']) + provider('resource_providers/[]'), 'resource_providers.inc')
# 1.0 - 1.19: 201, Location, no body; from 1.20: 200, Location, the provider
op('/resource_providers', 'POST', 0, [(201, 0, 20), (200, 20, None)],
   LOCATION + [('last-modified', 20, None), ('cache-control', 20, None)], provider('', 20),
   'resource_providers.inc, history 1.20 and 1.15 (a POST response with a body)')
op('/resource_providers/{uuid}', 'GET', 0, [(200, 0, None)], CACHE, provider(''), 'resource_provider.inc')
op('/resource_providers/{uuid}', 'PUT', 0, [(200, 0, None)], CACHE, provider(''), 'resource_provider.inc')
op('/resource_providers/{uuid}', 'DELETE', 0, [(204, 0, None)], [], [], 'resource_provider.inc')
# ------------------------------------------------------------------ inventories.inc / inventory.inc
INVS = at('', ['resource_provider_generation', 'inventories']) + at('inventories', ['*']) + at('inventories/*', INV)
ONE_INV = at('', ['resource_provider_generation'] + INV)
op('/resource_providers/{uuid}/inventories', 'GET', 0, [(200, 0, None)], CACHE, INVS, 'inventories.inc')
op('/resource_providers/{uuid}/inventories', 'PUT', 0, [(200, 0, None)], CACHE, INVS, 'inventories.inc')
# NOT in the API reference (inventories.inc documents GET, PUT, DELETE only); transcribed from the handler's docstring:
# "On success return a 201 response, a location header pointing to the newly created inventory and an application/json
# representation of the inventory."
op('/resource_providers/{uuid}/inventories', 'POST', 0, [(201, 0, None)], LOCATION + CACHE, ONE_INV,
   'handlers/inventory.py:create_inventory docstring (operation absent from api-ref)')
op('/resource_providers/{uuid}/inventories', 'DELETE', 5, [(204, 5, None)], [], [], 'inventories.inc')
op('/resource_providers/{uuid}/inventories/{resource_class}', 'GET', 0, [(200, 0, None)], CACHE, ONE_INV, 'inventory.inc')
op('/resource_providers/{uuid}/inventories/{resource_class}', 'PUT', 0, [(200, 0, None)], CACHE, ONE_INV, 'inventory.inc')
op('/resource_providers/{uuid}/inventories/{resource_class}', 'DELETE', 0, [(204, 0, None)], [], [], 'inventory.inc')
# ------------------------------------------------------------------ resource_provider_usages.inc
op('/resource_providers/{uuid}/usages', 'GET', 0, [(200, 0, None)], CACHE,
   at('', ['resource_provider_generation', 'usages']) + at('usages', ['*']), 'resource_provider_usages.inc')
# ------------------------------------------------------------------ aggregates.inc
AGGS = at('', ['aggregates', ('resource_provider_generation', 19)], 1)
op('/resource_providers/{uuid}/aggregates', 'GET', 1, [(200, 1, None)], CACHE, AGGS, 'aggregates.inc')
op('/resource_providers/{uuid}/aggregates', 'PUT', 1, [(200, 1, None)], CACHE, AGGS, 'aggregates.inc')
# ------------------------------------------------------------------ resource_provider_allocations.inc
# consumer_generation: not in the Response table of the .inc; history 1.28: "For each of those dicts, a consumer_generation
# field will now be shown."
op('/resource_providers/{uuid}/allocations', 'GET', 0, [(200, 0, None)], CACHE,
   at('', ['allocations', 'resource_provider_generation']) + at('allocations', ['*']) +
   at('allocations/*', ['resources', ('consumer_generation', 28)]) + at('allocations/*/resources', ['*']),
   'resource_provider_allocations.inc, history 1.28')
# ------------------------------------------------------------------ allocations.inc
op('/allocations', 'POST', 13, [(204, 13, None)], [], [], 'allocations.inc')
op('/allocations/{consumer_uuid}', 'GET', 0, [(200, 0, None)], CACHE,
   at('', ['allocations', ('project_id', 12), ('user_id', 12), ('consumer_generation', 28), ('consumer_type', 38)]) +
   at('allocations', ['*']) + at('allocations/*', ['generation', 'resources']) + at('allocations/*/resources', ['*']),
   'allocations.inc')
op('/allocations/{consumer_uuid}', 'PUT', 0, [(204, 0, None)], [], [], 'allocations.inc')
op('/allocations/{consumer_uuid}', 'DELETE', 0, [(204, 0, None)], [], [], 'allocations.inc')
# ------------------------------------------------------------------ allocation_candidates.inc
AR = 'allocation_requests/[]'
op('/allocation_candidates', 'GET', 10, [(200, 10, None)], CACHE,
   at('', ['allocation_requests', 'provider_summaries'], 10) + at(AR, ['allocations', ('mappings', 34)], 10) +
   # 1.10 - 1.11: a list of {resource_provider: {uuid}, resources: {class: amount}}
   at(AR + '/allocations/[]', ['resource_provider', 'resources'], 10, 12) +
   at(AR + '/allocations/[]/resource_provider', ['uuid'], 10, 12) + at(AR + '/allocations/[]/resources', ['*'], 10, 12) +
   # 1.12 -: a map provider uuid -> {resources: {class: amount}}
   at(AR + '/allocations', ['*'], 12) + at(AR + '/allocations/*', ['resources'], 12) +
   at(AR + '/allocations/*/resources', ['*'], 12) + at(AR + '/mappings', ['*'], 34) +
   at('provider_summaries', ['*'], 10) +
   at('provider_summaries/*', ['resources', ('traits', 17), ('parent_provider_uuid', 29), ('root_provider_uuid', 29)], 10) +
   at('provider_summaries/*/resources', ['*'], 10) + at('provider_summaries/*/resources/*', ['capacity', 'used'], 10),
   'allocation_candidates.inc (sections 1.10 - 1.11 and 1.12 -), history 1.12 1.17 1.29 1.34')
# ------------------------------------------------------------------ traits.inc / resource_provider_traits.inc
op('/traits', 'GET', 6, [(200, 6, None)], CACHE, at('', ['traits'], 6), 'traits.inc')
op('/traits/{name}', 'GET', 6, [(204, 6, None)], CACHE, [], 'traits.inc (a GET response: history 1.15)')
# no body: history 1.15 does not give this response last-modified / cache-control
op('/traits/{name}', 'PUT', 6, [(201, 6, None), (204, 6, None)], LOCATION, [], 'traits.inc')
op('/traits/{name}', 'DELETE', 6, [(204, 6, None)], [], [], 'traits.inc')
RPT = at('', ['traits', 'resource_provider_generation'], 6)
op('/resource_providers/{uuid}/traits', 'GET', 6, [(200, 6, None)], CACHE, RPT, 'resource_provider_traits.inc')
op('/resource_providers/{uuid}/traits', 'PUT', 6, [(200, 6, None)], CACHE, RPT, 'resource_provider_traits.inc')
op('/resource_providers/{uuid}/traits', 'DELETE', 6, [(204, 6, None)], [], [], 'resource_provider_traits.inc')
# ------------------------------------------------------------------ usages.inc
# 1.9 - 1.37: usages = {class: amount}; from 1.38 {consumer type: {consumer_count, class: amount}}.  (The heading of the first
# section reads "1.9 - 1.36"; consumer_type / consumer_count carry min_version 1.38 and history 1.38 introduces the grouping,
# so 1.37 is taken as flat.)
op('/usages', 'GET', 9, [(200, 9, None)], CACHE,
   at('', ['usages'], 9) + at('usages', ['*'], 9) + at('usages/*', ['*', 'consumer_count'], 38), 'usages.inc, history 1.38')
# ------------------------------------------------------------------ reshaper.inc
op('/reshaper', 'POST', 30, [(204, 30, None)], [], [], 'reshaper.inc')

# ------------------------------------------------------------------ errors.inc: the error document of any 4xx answer the
# service itself produces, whatever the route (pseudo route, id 19).  status / detail / code from errors.inc; title and
# request_id from the OpenStack errors guideline errors.inc refers to.  No header claims (see the known finding on Vary).
for name, i in [('errors', 0)]:
    OUT.append({'route': '(error)', 'method': 'GET', 'in': 'body', 'where': [], 'field': name, 'introduced': i, 'src': 'errors.inc'})
for name, i in [('status', 0), ('title', 0), ('detail', 0), ('request_id', 0), ('code', 23)]:
    OUT.append({'route': '(error)', 'method': 'GET', 'in': 'body', 'where': ['errors', '[]'], 'field': name, 'introduced': i,
                'src': 'errors.inc, history 1.23'})


COMMENT = ("response_fields: documented members of every response, per operation: in=body (where = path from the body root, "
           "'*' = any key of a map keyed by data, '[]' = an element of a list; the member '*' says the map at `where` is keyed "
           "by data, a member 'rel=x' says a link with that relation is listed), in=header (last-modified, cache-control, "
           "location, openstack-api-version, vary), in=status (the documented normal status codes). introduced / removed "
           "(first version without it) are minor versions. The route '(error)' is the error document of any route. Written by "
           "spec/response_fields_src.py, which holds the transcription in compact form with its sources.")

if __name__ == '__main__':
    path = os.path.join(HERE, 'surface.json')
    spec = json.load(open(path))
    spec.pop('comment_response_fields', None)
    spec['response_fields'] = OUT
    spec['comment_response_fields'] = COMMENT
    open(path, 'w').write(json.dumps(spec, indent=1))
    print('%d response members' % len(OUT))
