#!/bin/bash
cd /verif; mkdir -p work/pass
for i in $(seq -w 1 20); do
  p=C$i; s=$(date +%s)
  VERIF_SEED=${SEED:-1} ./check $p --tier quick > work/pass/$p.txt 2>&1; rc=$?
  echo "$p exit=$rc $(( $(date +%s) - s ))s viol=$(grep -c '^VIOLATION' work/pass/$p.txt) known=$(grep -c '^KNOWN' work/pass/$p.txt)"
done
