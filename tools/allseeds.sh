#!/bin/bash
# run every seed against its property's quick check, 4 at a time
cd /verif; mkdir -p work/seedres; rm -f work/seedres/*.txt
ls -d seeded/C*/ | tr -d / | sed 's|seeded||' | xargs -P 5 -I{} bash -c 's=seeded/{}; id={}; pid=${id%%-*}; ./seedtest2.sh $s/patch.diff $pid quick > work/seedres/$id.txt 2>&1'
for f in work/seedres/*.txt; do echo "$(basename $f .txt) viol=$(grep -c '^VIOLATION' $f) $(grep exit= $f)"; done
