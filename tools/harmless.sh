#!/bin/bash
# usage: tools/harmless.sh <name> patch...   all 20 quick checks against /repo HEAD + the given behaviour-preserving patches
# (scratch worktree + scratch copy of /verif under /dev/shm, removed afterwards); prints non-clean results only
N=$1; shift
R=/dev/shm/rharm_$N; V=/dev/shm/vharm_$N
git -C /repo worktree add -q --detach $R HEAD || exit 9
for p in "$@"; do ( cd $R && git apply "$p" ) || { echo "patch $p does not apply"; git -C /repo worktree remove --force $R; exit 9; }; done
rsync -a --exclude .git --exclude work --exclude replays /verif/ $V/
mkdir -p /verif/work/harm_$N
cd $V
for i in $(seq -w 1 20); do
  p=C$i
  VERIF_REPO=$R ./check $p --tier quick > /verif/work/harm_$N/$p.txt 2>&1; rc=$?
  v=$(grep -c '^VIOLATION' /verif/work/harm_$N/$p.txt)
  echo "$N $p exit=$rc viol=$v"
  if [ $rc -ne 0 ] || [ $v -ne 0 ]; then grep -A1 '^VIOLATION' /verif/work/harm_$N/$p.txt | head -6 | cut -c1-400; fi
done
cp $V/work/translate.log /verif/work/harm_$N/translate.log 2>/dev/null
git -C /repo worktree remove --force $R; rm -rf $V
