#!/bin/bash
# quick checks under several seeds; prints only non-clean results
cd /verif; mkdir -p work/ms
for seed in "$@"; do
  for i in $(seq -w 1 20); do
    p=C$i
    VERIF_SEED=$seed ./check $p --tier quick > work/ms/$p.$seed.txt 2>&1; rc=$?
    v=$(grep -c '^VIOLATION' work/ms/$p.$seed.txt)
    if [ $rc -ne 0 ] || [ $v -ne 0 ]; then echo "seed=$seed $p exit=$rc viol=$v"; grep -A1 '^VIOLATION' work/ms/$p.$seed.txt | head -6; fi
  done
  echo "seed $seed done"
done
