#!/bin/bash
# usage: tools/round.sh <dir holding the seeds> id...   verify + run own-property quick check, 3 at a time
D=$1; shift
cd /verif; mkdir -p work/seed_res
printf '%s\n' "$@" | xargs -P 3 -I{} bash -c 'id={}; pid=${id%%-*}; { ./seeded/verify_seed.sh '$D'/$id; ./seedtest2.sh '$D'/$id/patch.diff $pid quick; } > work/seed_res/$id.txt 2>&1'
for id in "$@"; do echo "== $id: $(head -1 work/seed_res/$id.txt | cut -c1-120) | viol=$(grep -c VIOLATION work/seed_res/$id.txt) $(grep exit= work/seed_res/$id.txt)"; done
