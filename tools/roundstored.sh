#!/bin/bash
# usage: tools/roundstored.sh <suffix letter>   own-property quick check against every stored seed of that round, 3 at a time
L=$1; cd /verif; mkdir -p work/seed_res
ls seeded | grep -- "-$L$" | xargs -P 3 -I{} bash -c 'id={}; pid=${id%%-*}; ./seedtest2.sh seeded/$id/patch.diff $pid quick > work/seed_res/$id.txt 2>&1'
for id in $(ls seeded | grep -- "-$L$"); do echo "== $id viol=$(grep -c VIOLATION work/seed_res/$id.txt) $(grep exit= work/seed_res/$id.txt) nofail=$(grep -c no-failing-input work/seed_res/$id.txt)"; done
