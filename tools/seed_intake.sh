#!/bin/bash
# usage: tools/seed_intake.sh <Cxx> <round letter> <dir with patch.diff demo.py meta.json>
# take a seeded change into seeded/<Cxx>-<letter>/, confirm it (seeded/verify_seed.sh) and run the property's quick check
# against it (seedtest2.sh); prints both results.  Neither /repo nor /verif's build is touched.
set -u
P=$1; L=$2; SRC=$3; D=/verif/seeded/$P-$L
mkdir -p $D && cp $SRC/patch.diff $SRC/demo.py $SRC/meta.json $D/ || exit 9
cd /verif
seeded/verify_seed.sh $D 2>&1 | grep -v conda.cli
./seedtest2.sh $D/patch.diff $P 2>&1 | grep -v conda.cli
