#!/venv/bin/python
"""Translator: how every handler maps object-layer exceptions to HTTP answers  ->  coq/Gen/GenExc.v.

For every function of placement/handlers/*.py and every call of an object-layer write entry point in it
(replace_all, reshape, set_inventory, add_inventory, update_inventory, delete_inventory, set_traits,
set_aggregates, destroy, create, save), the chain of enclosing `try` statements is followed outwards (through
calls of local functions, which the allocation handlers use) for each concrete exception class the model knows:
a handler that re-raises (bare `raise` / save_and_reraise_exception) is transparent; the first handler that catches
the class and raises webob.exc.HTTPxxx decides (status, error code); nothing catching it means the last-resort
500.  Class relations come from importing placement.exception.  Fail-closed: anything not understood aborts."""
import ast
import os
import sys

REPO = os.environ.get('VERIF_REPO', '/repo')
sys.path.insert(0, REPO)

ENTRY = {'replace_all', 'reshape', 'set_inventory', 'add_inventory', 'update_inventory', 'delete_inventory',
         'set_traits', 'set_aggregates', 'destroy', 'create', 'save'}
MODULES = ['allocation', 'reshaper', 'inventory', 'resource_provider', 'trait', 'aggregate', 'resource_class']
# model exception constructor (Model/Txn.v:exn, in this order) -> concrete classes
EXN = [
    ('ENotFound', ['placement.exception.NotFound']),
    ('ERcNotFound', ['placement.exception.ResourceClassNotFound']),
    ('EInvRcNotFound', ['placement.exception.InventoryWithResourceClassNotFound']),
    ('EInvalidInventory', ['placement.exception.InvalidInventory', 'placement.exception.InvalidAllocationCapacityExceeded',
                           'placement.exception.InvalidAllocationConstraintsViolated']),
    ('EInventoryInUse', ['placement.exception.InventoryInUse']),
    ('EConcurrent', ['placement.exception.ConcurrentUpdateDetected']),
    ('ERpConcurrent', ['placement.exception.ResourceProviderConcurrentUpdateDetected']),
    ('EDuplicate', ['oslo_db.exception.DBDuplicateEntry']),
    ('EObjAction', ['placement.exception.ObjectActionError']),
    ('EHasChildren', ['placement.exception.CannotDeleteParentResourceProvider']),
    ('ERpInUse', ['placement.exception.ResourceProviderInUse']),
    ('EBadCapacity', ['placement.exception.InvalidInventoryCapacity',
                      'placement.exception.InvalidInventoryCapacityReservedCanBeTotal']),
    ('ERcInUse', ['placement.exception.ResourceClassInUse']),
    # class@entry: the class is only raised by that entry point
    ('ERcStandard', ['placement.exception.ResourceClassCannotDeleteStandard@destroy',
                     'placement.exception.ResourceClassCannotUpdateStandard@save']),
    ('ERcExists', ['placement.exception.ResourceClassExists']),
    ('ETraitNotFound', ['placement.exception.TraitNotFound']),
    ('ETraitInUse', ['placement.exception.TraitInUse']),
    ('ETraitStandard', ['placement.exception.TraitCannotDeleteStandard']),
]
HTTP = {'HTTPBadRequest': 400, 'HTTPNotFound': 404, 'HTTPConflict': 409, 'HTTPForbidden': 403,
        'HTTPMethodNotAllowed': 405, 'HTTPNotAcceptable': 406, 'HTTPUnsupportedMediaType': 415,
        'HTTPInternalServerError': 500}


class Fail(Exception):
    pass


def dotted(n):
    if isinstance(n, ast.Name):
        return n.id
    if isinstance(n, ast.Attribute):
        return dotted(n.value) + '.' + n.attr
    return '?'


def resolve(name, aliases):
    """dotted name in a handler module -> class object"""
    import importlib
    head, _, rest = name.partition('.')
    if name == 'Exception':
        return Exception
    if not rest:
        import builtins
        b = getattr(builtins, head, None)
        if isinstance(b, type) and issubclass(b, BaseException):
            return b            # ValueError, TypeError, KeyError, OverflowError ...: Python's own exception classes
    if head not in aliases:
        raise Fail('cannot resolve exception %r' % name)
    mod = importlib.import_module(aliases[head])
    obj = mod
    for part in rest.split('.'):
        obj = getattr(obj, part)
    return obj


def handler_info(h, aliases):
    """-> (caught classes, outcome) ; outcome = 'reraise' | (status, code name or None) | 'swallow'"""
    if h.type is None:
        classes = [BaseException]
    elif isinstance(h.type, ast.Tuple):
        classes = [resolve(dotted(e), aliases) for e in h.type.elts]
    else:
        classes = [resolve(dotted(h.type), aliases)]
    raises = [n for n in ast.walk(ast.Module(body=h.body, type_ignores=[])) if isinstance(n, ast.Raise)]
    withs = [n for n in ast.walk(ast.Module(body=h.body, type_ignores=[])) if isinstance(n, ast.With)]
    for w in withs:
        for item in w.items:
            if isinstance(item.context_expr, ast.Call) and dotted(item.context_expr.func).endswith('save_and_reraise_exception'):
                return classes, 'reraise'
    if any(r.exc is None for r in raises) and all(r.exc is None for r in raises):
        return classes, 'reraise'
    web = [r for r in raises if r.exc is not None and isinstance(r.exc, ast.Call) and dotted(r.exc.func).startswith('webob.exc.')]
    if web and len(web) == len(raises):
        outs = set()
        for r in web:
            cls = dotted(r.exc.func).split('.')[-1]
            if cls not in HTTP:
                raise Fail('unknown webob class %s' % cls)
            code = None
            for kw in r.exc.keywords:
                if kw.arg == 'comment':
                    code = dotted(kw.value).split('.')[-1]
            outs.add((HTTP[cls], code))
        if len(outs) != 1:
            raise Fail('handler at line %d raises several different answers %r' % (h.lineno, outs))
        return classes, outs.pop()
    if not raises:
        return classes, 'swallow'
    raise Fail('except handler at line %d is neither a re-raise nor a webob answer' % h.lineno)


def sites_of(fn, aliases):
    """-> {entry attr: [chain]} for one top-level handler function; chain = list (innermost first) of handler lists"""
    local = {n.name: n for n in ast.walk(fn) if isinstance(n, ast.FunctionDef) and n is not fn}
    out = {}

    def walk(stmts, stack, depth):
        for st in stmts:
            if isinstance(st, ast.FunctionDef):
                continue                      # bodies of local functions are entered where they are called
            if isinstance(st, ast.Try):
                hs = [handler_info(h, aliases) for h in st.handlers]
                walk(st.body, [hs] + stack, depth)
                for h in st.handlers:
                    walk(h.body, stack, depth)
                walk(st.orelse, stack, depth)
                walk(st.finalbody, stack, depth)
                continue
            # calls in this statement (not descending into nested statements twice)
            inner = []
            for field in ('body', 'orelse', 'finalbody'):
                inner += getattr(st, field, []) or []
            if isinstance(st, (ast.If, ast.For, ast.While, ast.With)):
                heads = [st.test] if isinstance(st, (ast.If, ast.While)) else \
                    ([st.iter] if isinstance(st, ast.For) else [i.context_expr for i in st.items])
                for hnode in heads:
                    calls(hnode, stack, depth)
                walk(inner, stack, depth)
            else:
                calls(st, stack, depth)

    def calls(node, stack, depth):
        for c in ast.walk(node):
            if not isinstance(c, ast.Call):
                continue
            if isinstance(c.func, ast.Attribute) and c.func.attr in ENTRY:
                out.setdefault(c.func.attr, []).append(list(stack))
            elif isinstance(c.func, ast.Name) and c.func.id in local and depth < 4:
                walk(local[c.func.id].body, stack, depth + 1)

    walk(fn.body, [], 0)
    return out


def decide(chain, cls):
    for hs in chain:
        for classes, outcome in hs:
            if any(issubclass(cls, k) for k in classes):
                if outcome == 'reraise':
                    break                     # propagates to the next enclosing try
                if outcome == 'swallow':
                    return ('swallow', None)
                return outcome
    return (500, None)


def main(outdir):
    import importlib
    exn_classes = []
    for name, paths in EXN:
        cl = []
        for p in paths:
            p, _, only = p.partition('@')
            m, _, c = p.rpartition('.')
            cl.append((getattr(importlib.import_module(m), c), only or None))
        exn_classes.append((name, cl))
    rows = []          # (site name, exn index, status, code)
    site_names = []
    codes = {None: 0}
    import placement.errors as perr
    code_ids = {'DEFAULT': 0, 'CONCURRENT_UPDATE': 1, 'INVENTORY_INUSE': 2, 'RESOURCE_PROVIDER_NOT_FOUND': 3,
                'PROVIDER_IN_USE': 4, 'PROVIDER_CANNOT_DELETE_PARENT': 5, 'DUPLICATE_NAME': 6,
                'QUERYPARAM_BAD_VALUE': 7, 'QUERYPARAM_MISSING_VALUE': 8, 'RESOURCE_CLASS_NOT_FOUND': 9}     # noqa: F841
    for mod in MODULES:
        path = os.path.join(REPO, 'placement', 'handlers', mod + '.py')
        tree = ast.parse(open(path).read())
        aliases = {}
        for node in tree.body:
            if isinstance(node, ast.ImportFrom):
                for a in node.names:
                    aliases[a.asname or a.name] = (node.module + '.' + a.name) if node.module else a.name
            elif isinstance(node, ast.Import):
                for a in node.names:
                    aliases[a.asname or a.name.split('.')[0]] = a.name if a.asname else a.name.split('.')[0]
        # `from oslo_db import exception as db_exc`, `from placement import exception`
        for fn in tree.body:
            if not isinstance(fn, ast.FunctionDef):
                continue
            for attr, chains in sorted(sites_of(fn, aliases).items()):
                site = '%s__%s__%s' % (mod, fn.name.lstrip('_'), attr)
                per_exn = []
                for ei, (ename, classes) in enumerate(exn_classes):
                    rel = [c for c, only in classes if only in (None, attr)] or [c for c, _o in classes]
                    outs = set(decide(ch, c) for ch in chains for c in rel)
                    if len(outs) != 1:
                        # several call sites of the same entry point in one function answer differently
                        per_exn.append((-1, None))
                    else:
                        o = outs.pop()
                        per_exn.append((0, None) if o[0] == 'swallow' else o)
                site_names.append(site)
                for ei, (st, code) in enumerate(per_exn):
                    if code is not None and not hasattr(perr, code):
                        raise Fail('unknown error code constant %s' % code)
                    rows.append((len(site_names) - 1, ei, st, code))
    if not rows:
        raise Fail('no call sites found')
    code_names = sorted(set(c for _s, _e, _st, c in rows if c is not None))
    # error code ids as in harness/ops.py:ERROR_CODES / Model/Base.v: keep the constants by NAME in Coq
    L = ['(* GENERATED by translate/excmap.py from /repo/placement/handlers -- do not edit *)',
         'From Coq Require Import ZArith List.', 'Import ListNotations.', 'Open Scope Z_scope.',
         '(* exception ids follow Model/Txn.v:exn: %s *)' % ', '.join('%d=%s' % (i, n) for i, (n, _c) in enumerate(EXN)),
         '(* status 500 = not caught by the handler (last-resort wrapper); -1 = call sites of one function disagree; '
         '0 = swallowed *)',
         '(* error code: 0 none/default, then %s *)' % ', '.join('%d=%s' % (i + 1, n) for i, n in enumerate(code_names))]
    for i, s in enumerate(site_names):
        L.append('Definition S_%s : Z := %d.' % (s, i))
    for i, n in enumerate(code_names):
        L.append('Definition XC_%s : Z := %d.' % (n, i + 1))
    L.append('Definition exc_table : list (Z * Z * Z * Z) := [')
    L.append(';\n'.join('  (%d, %d, %s, %d)' % (s, e, '(%d)' % st if st < 0 else str(st),
                                               0 if c is None else code_names.index(c) + 1) for s, e, st, c in rows) + '].')
    txt = '\n'.join(L) + '\n'
    out = os.path.join(outdir, 'GenExc.v')
    if not os.path.exists(out) or open(out).read() != txt:
        with open(out, 'w') as f:
            f.write(txt)


if __name__ == '__main__':
    try:
        main(sys.argv[1] if len(sys.argv) > 1 else '.')
    except Fail as exc:
        sys.stderr.write('TRANSLATOR FAILED (excmap): %s\n' % exc)
        sys.exit(3)
