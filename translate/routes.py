"""Regenerate coq/Gen/GenRoutes.v (+ work/routes.json) from /repo's working tree.

Reads with `ast` (fail-closed: any unrecognised shape is an error):
  * placement/handler.py: ROUTE_DECLARATIONS
  * placement/handlers/*.py: every @wsgi_wrapper.PlacementWsgify function: decorators in source order
    (version_handler windows + status, require_content, check_accept) for every overload of a name,
    the first `context.can(<RULE>)` and the statements that precede it, every microversion gate
    (`.matches((1, N))`, `matches(min_version=...)`, `want_version >= (1, N)`) in the function and
    the same-module helpers it calls
  * placement/policies/*.py (by import): rule name, check string, documented operations, scope types
  * placement/deploy.py: the middleware tuple order
"""
import ast
import importlib
import json
import os
import sys

REPO = os.environ.get('VERIF_REPO', '/repo')
sys.path.insert(0, REPO)

# documented routes (api-ref): stable ids used by the hand-written Spec/Surface.v
ROUTE_IDS = {
    '/': 0, '': 1, '/resource_classes': 2, '/resource_classes/{name}': 3, '/resource_providers': 4,
    '/resource_providers/{uuid}': 5, '/resource_providers/{uuid}/inventories': 6,
    '/resource_providers/{uuid}/inventories/{resource_class}': 7, '/resource_providers/{uuid}/usages': 8,
    '/resource_providers/{uuid}/aggregates': 9, '/resource_providers/{uuid}/allocations': 10,
    '/allocations': 11, '/allocations/{consumer_uuid}': 12, '/allocation_candidates': 13, '/traits': 14,
    '/traits/{name}': 15, '/resource_providers/{uuid}/traits': 16, '/usages': 17, '/reshaper': 18,
}
METHODS = {'GET': 0, 'POST': 1, 'PUT': 2, 'DELETE': 3}
# statements that may precede context.can(): pure reads of the request
PURE_CALLS = {('util', 'wsgi_path_item'), ('req.GET', 'get')}
CHECKS = {'rule:admin_or_service_api': 0, 'rule:service_api': 1, 'rule:admin_or_project_reader_or_service_api': 2}


class Fail(Exception):
    pass


def vtuple(node, mod):
    """(1, N) literal, 'X.Y' string or module-level constant -> N"""
    if isinstance(node, ast.Tuple) and len(node.elts) == 2 and all(isinstance(e, ast.Constant) for e in node.elts):
        if node.elts[0].value != 1:
            raise Fail('major version %r' % node.elts[0].value)
        return int(node.elts[1].value)
    if isinstance(node, ast.Constant) and isinstance(node.value, str):
        a, b = node.value.split('.')
        if a != '1':
            raise Fail('major version %s' % a)
        return int(b)
    if isinstance(node, ast.Name):
        val = getattr(mod, node.id)
        if isinstance(val, tuple) and val[0] == 1:
            return int(val[1])
    raise Fail('unrecognised version expression: %s' % ast.dump(node))


def dotted(node):
    if isinstance(node, ast.Name):
        return node.id
    if isinstance(node, ast.Attribute):
        return dotted(node.value) + '.' + node.attr
    raise Fail('not a dotted name: %s' % ast.dump(node))


def gates_in(fn, funcs, mod, depth=0, seen=None):
    seen = seen if seen is not None else set()
    out = []
    # `for maj, min in <MODULE_LIST>: if want_version.matches((maj, min))`: a ladder over a module constant
    ladders = {}
    for node in ast.walk(fn):
        if isinstance(node, ast.For) and isinstance(node.target, ast.Tuple) and isinstance(node.iter, ast.Name) \
                and all(isinstance(e, ast.Name) for e in node.target.elts) and len(node.target.elts) == 2:
            vals = getattr(mod, node.iter.id)
            if not all(isinstance(t, tuple) and len(t) == 2 and t[0] == 1 for t in vals):
                raise Fail('ladder constant %s' % node.iter.id)
            ladders[tuple(e.id for e in node.target.elts)] = [int(t[1]) for t in vals]
    for node in ast.walk(fn):
        if isinstance(node, ast.Call) and isinstance(node.func, ast.Attribute) and node.func.attr == 'matches':
            if node.args and isinstance(node.args[0], ast.Tuple) and \
                    all(isinstance(e, ast.Name) for e in node.args[0].elts) and \
                    tuple(e.id for e in node.args[0].elts) in ladders:
                out.extend(ladders[tuple(e.id for e in node.args[0].elts)])
            elif node.args:
                out.append(vtuple(node.args[0], mod))
            elif node.keywords and node.keywords[0].arg == 'min_version':
                out.append(vtuple(node.keywords[0].value, mod))
            else:
                raise Fail('matches() shape: %s' % ast.dump(node))
        elif isinstance(node, ast.Compare) and isinstance(node.left, ast.Name) and node.left.id == 'want_version':
            if len(node.ops) == 1 and isinstance(node.ops[0], ast.GtE):
                out.append(vtuple(node.comparators[0], mod))
            else:
                raise Fail('want_version comparison: %s' % ast.dump(node))
        elif isinstance(node, ast.Call) and isinstance(node.func, ast.Name) and node.func.id in funcs \
                and node.func.id not in seen and depth < 4 and node.func.id != fn.name:
            seen.add(node.func.id)
            out.extend(gates_in(funcs[node.func.id][-1], funcs, mod, depth + 1, seen))
    return out


def deco_of(d, mod):
    if isinstance(d, ast.Attribute) and dotted(d) == 'wsgi_wrapper.PlacementWsgify':
        return ('wsgify',)
    if isinstance(d, ast.Call):
        name = dotted(d.func)
        if name == 'microversion.version_handler':
            mn = vtuple(d.args[0], mod)
            mx = vtuple(d.args[1], mod) if len(d.args) > 1 else None
            st = 404
            for kw in d.keywords:
                if kw.arg == 'status_code':
                    st = int(kw.value.value)
                elif kw.arg == 'max_ver':
                    mx = vtuple(kw.value, mod)
                else:
                    raise Fail('version_handler keyword %s' % kw.arg)
            return ('version', mn, mx, st)
        if name == 'util.require_content':
            if d.args[0].value != 'application/json':
                raise Fail('require_content %r' % d.args[0].value)
            return ('content',)
        if name == 'util.check_accept':
            if d.args[0].value != 'application/json':
                raise Fail('check_accept %r' % d.args[0].value)
            return ('accept',)
    raise Fail('unknown decorator: %s' % ast.dump(d))


def is_pure_stmt(st):
    """req.environ[...] reads, util.wsgi_path_item(...), req.GET.get(...), docstrings"""
    if isinstance(st, ast.Expr) and isinstance(st.value, ast.Constant) and isinstance(st.value.value, str):
        return True
    if isinstance(st, ast.Assign) and len(st.targets) == 1 and isinstance(st.targets[0], ast.Name):
        v = st.value
        if isinstance(v, ast.Subscript) and dotted(v.value) == 'req.environ':
            return True
        if isinstance(v, ast.Call):
            name = dotted(v.func)
            if name in ('util.wsgi_path_item', 'req.GET.get'):
                return True
    # try: <pure reads> except <...>: raise webob.exc.HTTPBadRequest(...)   -- may reject, cannot have an effect
    if isinstance(st, ast.Try) and not st.orelse and not st.finalbody and all(is_pure_stmt(s) for s in st.body):
        for h in st.handlers:
            if not (len(h.body) == 1 and isinstance(h.body[0], ast.Raise) and isinstance(h.body[0].exc, ast.Call)
                    and dotted(h.body[0].exc.func) == 'webob.exc.HTTPBadRequest'):
                return False
        return True
    return False


def is_context(node):
    """`context` or `req.environ['placement.context']`"""
    if isinstance(node, ast.Name):
        return node.id == 'context'
    return (isinstance(node, ast.Subscript) and isinstance(node.value, ast.Attribute)
            and dotted(node.value) == 'req.environ' and isinstance(node.slice, ast.Constant)
            and node.slice.value == 'placement.context')


def policy_use(fn, funcs, mod, depth=0):
    """-> (rule constant name, check_first, has_target)"""
    body = fn.body
    for i, st in enumerate(body):
        if isinstance(st, ast.Expr) and isinstance(st.value, ast.Call) and isinstance(st.value.func, ast.Attribute) \
                and st.value.func.attr == 'can' and is_context(st.value.func.value):
            call = st.value
            rule = dotted(call.args[0])
            target = any(kw.arg == 'target' for kw in call.keywords)
            first = all(is_pure_stmt(s) for s in body[:i])
            return rule, first, target
        # one-line delegation: return _helper(req, ...)
        if isinstance(st, ast.Return) and isinstance(st.value, ast.Call) and isinstance(st.value.func, ast.Name) \
                and st.value.func.id in funcs and depth < 2:
            if all(is_pure_stmt(s) for s in body[:i]):
                return policy_use(funcs[st.value.func.id][-1], funcs, mod, depth + 1)
    return None, False, False


def main(outdir):
    from placement import policies as pol_pkg
    handler_src = open(os.path.join(REPO, 'placement', 'handler.py')).read()
    tree = ast.parse(handler_src)
    decl = None
    for node in tree.body:
        if isinstance(node, ast.Assign) and isinstance(node.targets[0], ast.Name) \
                and node.targets[0].id == 'ROUTE_DECLARATIONS':
            decl = node.value
    if not isinstance(decl, ast.Dict):
        raise Fail('ROUTE_DECLARATIONS not a dict literal')
    routes = []
    for k, v in zip(decl.keys, decl.values):
        path = k.value
        if path not in ROUTE_IDS:
            raise Fail('route %r is not in the documented route table' % path)
        targets = []
        if isinstance(v, ast.Dict):
            pairs = [(mk.value, mv) for mk, mv in zip(v.keys, v.values)]
        elif isinstance(v, ast.Call) and isinstance(v.func, ast.Name) and v.func.id == 'dict' and not v.args \
                and all(kw.arg is not None for kw in v.keywords):
            # the same mapping written dict(GET=f, PUT=g): keyword order is insertion order
            pairs = [(kw.arg, kw.value) for kw in v.keywords]
        else:
            raise Fail('route %r: methods not a dict literal or a dict(METHOD=handler, ...) call' % path)
        for mk, mv in pairs:
            if mk not in METHODS:
                raise Fail('method %r' % mk)
            targets.append((mk, dotted(mv)))
        routes.append((path, targets))

    # handler modules
    mods = {}
    handlers = {}
    for path, targets in routes:
        for method, name in targets:
            m, f = name.split('.')
            if m not in mods:
                src = open(os.path.join(REPO, 'placement', 'handlers', m + '.py')).read()
                t = ast.parse(src)
                funcs = {}
                for node in t.body:
                    if isinstance(node, ast.FunctionDef):
                        funcs.setdefault(node.name, []).append(node)
                mods[m] = (funcs, importlib.import_module('placement.handlers.' + m))
            funcs, mod = mods[m]
            if f not in funcs:
                raise Fail('handler %s not found' % name)
            if name in handlers:
                continue
            overloads = []
            for fn in funcs[f]:
                decos = [deco_of(d, mod) for d in fn.decorator_list]
                if not decos or decos[0] != ('wsgify',):
                    raise Fail('%s: first decorator is not PlacementWsgify' % name)
                overloads.append(decos[1:])
            last = funcs[f][-1]
            rule, first, target = policy_use(last, funcs, mod)
            # all overloads must use the same rule
            for fn in funcs[f][:-1]:
                r2, f2, t2 = policy_use(fn, funcs, mod)
                if (r2, f2, t2) != (rule, first, target):
                    raise Fail('%s: overloads differ in policy use' % name)
            rule_name = None
            if rule is not None:
                pm, attr = rule.split('.')
                rule_name = getattr(getattr(mod, pm), attr)
            gates = []
            for fn in funcs[f]:
                gates.extend(gates_in(fn, funcs, mod))
            handlers[name] = {'overloads': overloads, 'rule': rule_name, 'check_first': first, 'target': target,
                              'gates': sorted(set(gates))}

    # policies
    rules = {}
    for r in pol_pkg.list_rules():
        ops_ = [(o['method'], o['path']) for o in getattr(r, 'operations', [])]
        rules[r.name] = {'check': r.check_str, 'operations': ops_,
                         'scope_types': list(r.scope_types or [])}
    base = {n: rules[n]['check'] for n in ('admin_api', 'service_api', 'admin_or_service_api', 'project_reader_api',
                                           'admin_or_project_reader_or_service_api')}

    # middleware order in deploy()
    dsrc = ast.parse(open(os.path.join(REPO, 'placement', 'deploy.py')).read())
    mw = None
    for node in ast.walk(dsrc):
        if isinstance(node, ast.For) and isinstance(node.target, ast.Name) and node.target.id == 'middleware':
            it = node.iter
            if isinstance(it, ast.Name):
                # the tuple bound to a local name first: exactly one assignment of a tuple to that name
                binds = [a.value for a in ast.walk(dsrc) if isinstance(a, ast.Assign) and len(a.targets) == 1
                         and isinstance(a.targets[0], ast.Name) and a.targets[0].id == it.id]
                it = binds[0] if len(binds) == 1 else None
            if isinstance(it, ast.Tuple) and all(isinstance(e, ast.Name) for e in it.elts):
                mw = [e.id for e in it.elts]
    if mw is None:
        raise Fail('middleware tuple not found in deploy()')
    expected_mw = ['fault_middleware', 'context_middleware', 'auth_middleware', 'cors_middleware', 'request_log',
                   'http_proxy_to_wsgi', 'osprofiler_middleware']

    data = {'routes': routes, 'handlers': handlers, 'rules': rules, 'base_rules': base, 'middleware': mw}
    work = os.path.join(os.path.dirname(os.path.dirname(os.path.abspath(__file__))), 'work')
    os.makedirs(work, exist_ok=True)
    with open(os.path.join(work, 'routes.json'), 'w') as f:
        json.dump(data, f, indent=1, sort_keys=True)

    # ---------------------------------------------------------------- Coq
    hid = {n: i for i, n in enumerate(sorted(handlers))}
    rule_names = sorted(n for n in rules if n.startswith('placement:'))
    rid = {n: i for i, n in enumerate(rule_names)}

    def z(n):
        return '(%d)' % n if n < 0 else str(n)

    def deco_coq(d):
        if d[0] == 'version':
            return '(DVersion %d %s %d)' % (d[1], z(-1 if d[2] is None else d[2]), d[3])
        return {'content': 'DContent', 'accept': 'DAccept'}[d[0]]

    L = ['(* GENERATED by translate/routes.py from /repo -- do not edit *)',
         'From Coq Require Import ZArith List.', 'Import ListNotations.', 'Open Scope Z_scope.',
         'Inductive deco := DVersion (mn mx st : Z) | DContent | DAccept.   (* mx = -1: no upper bound *)',
         'Record hinfo := mkH { h_id : Z; h_overloads : list (list deco); h_rule : Z; h_check_first : bool;',
         '                      h_target_project : bool; h_gates : list Z }.',
         '(* handler ids: %s *)' % ', '.join('%d=%s' % (i, n) for n, i in sorted(hid.items(), key=lambda x: x[1])),
         'Definition handlers : list hinfo := [']
    items = []
    for n in sorted(handlers):
        h = handlers[n]
        ov = '[' + '; '.join('[' + '; '.join(deco_coq(d) for d in o) + ']' for o in h['overloads']) + ']'
        items.append('  mkH %d %s %s %s %s [%s]' % (
            hid[n], ov, z(rid[h['rule']] if h['rule'] in rid else -1), 'true' if h['check_first'] else 'false',
            'true' if h['target'] else 'false', '; '.join(str(g) for g in h['gates'])))
    L.append(';\n'.join(items) + '].')
    L.append('(* routes: (documented route id, [(method, handler id)]); methods GET=0 POST=1 PUT=2 DELETE=3 *)')
    L.append('Definition routes : list (Z * list (Z * Z)) := [')
    L.append(';\n'.join('  (%d, [%s])' % (ROUTE_IDS[p], '; '.join('(%d, %d)' % (METHODS[m], hid[n]) for m, n in t))
                        for p, t in routes) + '].')
    L.append('(* policy rules: (rule id, default check: 0 admin-or-service 1 service 2 admin-or-project-reader-or-service, '
             'documented operations [(method, route id)]) *)')
    L.append('(* rule ids: %s *)' % ', '.join('%d=%s' % (i, n) for n, i in sorted(rid.items(), key=lambda x: x[1])))
    ritems = []
    for n in rule_names:
        r = rules[n]
        if r['check'] not in CHECKS:
            raise Fail('rule %s has an unrecognised default %r' % (n, r['check']))
        opl = []
        for m, p in r['operations']:
            if p not in ROUTE_IDS or m not in METHODS:
                raise Fail('rule %s documents an unknown operation %s %s' % (n, m, p))
            opl.append('(%d, %d)' % (METHODS[m], ROUTE_IDS[p]))
        if r['scope_types'] != ['project']:
            raise Fail('rule %s scope_types %r' % (n, r['scope_types']))
        ritems.append('  (%d, %d, [%s])' % (rid[n], CHECKS[r['check']], '; '.join(opl)))
    L.append('Definition rules : list (Z * Z * list (Z * Z)) := [')
    L.append(';\n'.join(ritems) + '].')
    want_base = {'admin_api': 'role:admin', 'service_api': 'role:service',
                 'admin_or_service_api': 'role:admin or role:service',
                 'project_reader_api': 'role:reader and project_id:%(project_id)s',
                 'admin_or_project_reader_or_service_api': 'role:admin or rule:project_reader_api or role:service'}
    L.append('(* base rule check strings are the documented ones *)')
    L.append('Definition base_rules_as_documented : bool := %s.' % ('true' if base == want_base else 'false'))
    L.append('Definition middleware_order_as_documented : bool := %s.' % ('true' if mw == expected_mw else 'false'))
    txt = '\n'.join(L) + '\n'
    out = os.path.join(outdir, 'GenRoutes.v')
    if not os.path.exists(out) or open(out).read() != txt:
        with open(out, 'w') as f:
            f.write(txt)


if __name__ == '__main__':
    try:
        main(sys.argv[1])
    except Fail as exc:
        print('TRANSLATOR FAILED (routes): %s' % exc)
        sys.exit(3)
