"""Translate every JSON schema of placement/schemas/*.py into a term of Model/Json.v  ->  Gen/GenSchemas.v

Fail-closed: a keyword, a type, a keyword value or a regular-expression construct outside the subset that
Model/Json.v gives a meaning to raises Fail (exit 3); every check then treats its proofs as broken.

Read from /repo's working tree by import (the schema constants are built by copy.deepcopy and in-place updates at
import time, so the module objects are the schemas the handlers pass to jsonschema).
usage: schemas.py <Gen dir>
"""
import importlib
import os
import pkgutil
import sys


class Fail(Exception):
    pass


TYPES = {'object': 'TObject', 'string': 'TString', 'integer': 'TInteger', 'number': 'TNumber', 'array': 'TArray',
         'null': 'TNull', 'boolean': 'TBoolean'}


def zl(s):
    return '[' + '; '.join(str(ord(c)) for c in s) + ']'


# ------------------------------------------------------------------ regular expressions
def parse_class(p, i):
    """p[i] == '[' -> (ranges, next index)"""
    i += 1
    if i < len(p) and p[i] == '^':
        raise Fail('negated character class in %r' % p)
    ranges = []
    first = True
    while i < len(p) and (p[i] != ']' or first):
        first = False
        c = p[i]
        if c == '\\':
            raise Fail('escape inside a character class in %r' % p)
        if i + 2 < len(p) and p[i + 1] == '-' and p[i + 2] != ']':
            ranges.append((ord(c), ord(p[i + 2])))
            i += 3
        else:
            ranges.append((ord(c), ord(c)))
            i += 1
    if i >= len(p):
        raise Fail('unterminated character class in %r' % p)
    return ranges, i + 1


def parse_quant(p, i):
    """-> (kind, args, next index); kind in one/plus/star/rep/range"""
    if i < len(p) and p[i] == '+':
        return 'plus', (), i + 1
    if i < len(p) and p[i] == '*':
        return 'star', (), i + 1
    if i < len(p) and p[i] == '{':
        j = p.index('}', i)
        body = p[i + 1:j]
        if ',' in body:
            lo, hi = body.split(',')
            if not (lo.isdigit() and hi.isdigit()) or int(lo) > int(hi):
                raise Fail('quantifier {%s} in %r' % (body, p))
            return 'range', (int(lo), int(hi)), j + 1
        if not body.isdigit():
            raise Fail('quantifier {%s} in %r' % (body, p))
        return 'rep', (int(body),), j + 1
    if i < len(p) and p[i] == '?':
        raise Fail('optional single atom in %r (only optional groups are supported)' % p)
    return 'one', (), i


def parse_seq(p, i, stop):
    """items until one of the characters in `stop` at nesting level 0 (or the end) -> (list of items, index)
    an item is ('atom', kind, args, ranges) or ('optgroup', [items])"""
    items = []
    while i < len(p) and p[i] not in stop:
        c = p[i]
        if c == '(':
            if p.startswith('(?', i):
                raise Fail('group extension in %r' % p)
            inner, j = parse_seq(p, i + 1, ')')
            if j >= len(p) or p[j] != ')':
                raise Fail('unterminated group in %r' % p)
            if any(it[0] == 'optgroup' for it in inner):
                raise Fail('nested groups in %r' % p)
            j += 1
            if j < len(p) and p[j] == '?':
                items.append(('optgroup', inner))
                i = j + 1
            elif j < len(p) and p[j] in '+*{':
                raise Fail('quantified group in %r' % p)
            else:
                items.extend(inner)
                i = j
            continue
        if c == '[':
            ranges, i = parse_class(p, i)
        elif c == '\\':
            if p.startswith('\\Z', i):
                break
            raise Fail('escape %r in %r' % (p[i:i + 2], p))
        elif c == '$':
            break
        elif c in '.^|)':
            raise Fail('unsupported %r in %r' % (c, p))
        else:
            ranges, i = [(ord(c), ord(c))], i + 1
        kind, args, i = parse_quant(p, i)
        items.append(('atom', kind, args, ranges))
    return items, i


def expand(items):
    """optional groups -> list of alternatives (lists of atoms)"""
    alts = [[]]
    for it in items:
        if it[0] == 'optgroup':
            alts = [a + it[1] for a in alts] + [list(a) for a in alts]
        else:
            alts = [a + [it] for a in alts]
    return alts


def split_top(p):
    parts, depth, cur, i = [], 0, '', 0
    while i < len(p):
        c = p[i]
        if c == '\\':
            cur += p[i:i + 2]
            i += 2
            continue
        if c == '[':
            j = p.index(']', i + 2) if p[i + 1:i + 2] == ']' else p.index(']', i + 1)
            cur += p[i:j + 1]
            i = j + 1
            continue
        if c == '(':
            depth += 1
        elif c == ')':
            depth -= 1
        if c == '|' and depth == 0:
            parts.append(cur)
            cur = ''
        else:
            cur += c
        i += 1
    parts.append(cur)
    return parts


def coq_ranges(r):
    return '[' + '; '.join('(%d, %d)' % x for x in r) + ']'


def coq_item(it):
    _, kind, args, ranges = it
    r = coq_ranges(ranges)
    if kind == 'one':
        return 'IOne %s' % r
    if kind == 'plus':
        return 'IPlus %s' % r
    if kind == 'star':
        return 'IStar %s' % r
    if kind == 'rep':
        return 'IRep %d %s' % (args[0], r)
    return 'IRange %d %d %s' % (args[0], args[1], r)


def pattern(p):
    """Python regular expression (re.search) -> Coq term of type jpat"""
    alts = []
    for part in split_top(p):
        start = part.startswith('^')
        body = part[1:] if start else part
        items, i = parse_seq(body, 0, '')
        rest = body[i:]
        if rest == '':
            end = 'EndNone'
        elif rest == '$':
            end = 'EndDollar'
        elif rest == '\\Z':
            end = 'EndZ'
        else:
            raise Fail('trailing %r in pattern %r' % (rest, p))
        for a in expand(items):
            alts.append('mkAlt %s [%s] %s' % ('true' if start else 'false', '; '.join(coq_item(x) for x in a), end))
    return '[' + '; '.join(alts) + ']'


# ------------------------------------------------------------------ schemas
def integral(v, what):
    if isinstance(v, bool) or not isinstance(v, (int, float)):
        raise Fail('%s is not a number: %r' % (what, v))
    if isinstance(v, float):
        if v != v or v in (float('inf'), float('-inf')) or not v.is_integer():
            raise Fail('%s is not an integral bound: %r' % (what, v))
        return int(v)
    return v


def z(n):
    return '(%d)' % n if n < 0 else '%d' % n


def schema(s, where):
    if not isinstance(s, dict):
        raise Fail('%s: schema is not a dict: %r' % (where, s))
    kws = []
    for k in sorted(s):
        v = s[k]
        w = '%s.%s' % (where, k)
        if k == 'type':
            ts = v if isinstance(v, list) else [v]
            for t in ts:
                if t not in TYPES:
                    raise Fail('%s: type %r' % (w, t))
            kws.append('KType [%s]' % '; '.join(TYPES[t] for t in ts))
        elif k == 'properties':
            if not isinstance(v, dict):
                raise Fail(w)
            kws.append('KProps [%s]' % ';\n    '.join(
                '((* %s *) %s, %s)' % (n.replace('*', '?'), zl(n), schema(v[n], w + '.' + n)) for n in sorted(v)))
        elif k == 'patternProperties':
            if not isinstance(v, dict):
                raise Fail(w)
            kws.append('KPatProps [%s]' % ';\n    '.join(
                '((* %s *) %s, %s)' % (n.replace('*', '?').replace('(', '<').replace(')', '>'), pattern(n),
                                       schema(v[n], w + '.' + n)) for n in sorted(v)))
        elif k == 'additionalProperties':
            if v is not False:
                raise Fail('%s: only additionalProperties false is modelled, got %r' % (w, v))
            kws.append('KNoAdditional')
        elif k == 'required':
            if not (isinstance(v, list) and all(isinstance(x, str) for x in v)):
                raise Fail(w)
            kws.append('KRequired [%s]' % '; '.join(zl(x) for x in v))
        elif k in ('minProperties', 'minLength', 'maxLength', 'minItems'):
            if isinstance(v, bool) or not isinstance(v, int) or v < 0:
                raise Fail('%s: %r' % (w, v))
            kws.append('%s %d' % ({'minProperties': 'KMinProps', 'minLength': 'KMinLen', 'maxLength': 'KMaxLen',
                                   'minItems': 'KMinItems'}[k], v))
        elif k == 'minimum':
            kws.append('KMin %s' % z(integral(v, w)))
        elif k == 'maximum':
            kws.append('KMax %s' % z(integral(v, w)))
        elif k == 'pattern':
            if not isinstance(v, str):
                raise Fail(w)
            kws.append('KPattern (* %s *) %s' % (v.replace('*', '?').replace('(', '<').replace(')', '>'), pattern(v)))
        elif k == 'format':
            if v != 'uuid':
                raise Fail('%s: format %r' % (w, v))
            kws.append('KFormatUuid')
        elif k == 'items':
            kws.append('KItems (%s)' % schema(v, w))
        elif k == 'enum':
            if not (isinstance(v, list) and all(isinstance(x, str) for x in v)):
                raise Fail('%s: only enumerations of strings are modelled' % w)
            kws.append('KEnum [%s]' % '; '.join(zl(x) for x in v))
        elif k == 'uniqueItems':
            if v is not True:
                raise Fail(w)
            kws.append('KUnique')
        elif k == 'anyOf':
            if not isinstance(v, list):
                raise Fail(w)
            kws.append('KAnyOf [%s]' % '; '.join(schema(x, w) for x in v))
        elif k in ('title', 'description', '$comment'):
            continue
        else:
            raise Fail('%s: keyword %r is not modelled' % (where, k))
    return 'Sch [%s]' % ';\n  '.join(kws)


def main(gen_dir):
    import placement.schemas as pkg
    import jsonschema
    from placement import util     # noqa: F401  (registers the uuid format checker)
    from oslo_utils import uuidutils
    chk = jsonschema.FormatChecker.checkers.get('uuid')
    if chk is None or chk[0].__module__ != 'placement.util':
        raise Fail("the 'uuid' format is not checked by placement.util._validate_uuid_format")
    if util._validate_uuid_format.__code__.co_names != ('uuidutils', 'is_uuid_like'):
        raise Fail('placement.util._validate_uuid_format is no longer a plain call of uuidutils.is_uuid_like')
    assert uuidutils.is_uuid_like('0' * 32)
    out = ['(* GENERATED by translate/schemas.py from /repo/placement/schemas/*.py -- do not edit *)',
           'From Coq Require Import ZArith List.', 'From PV Require Import Model.Regex Model.Json.',
           'Import ListNotations.', 'Open Scope Z_scope.']
    names = []
    for m in sorted(pkgutil.iter_modules(pkg.__path__), key=lambda x: x.name):
        mod = importlib.import_module('placement.schemas.' + m.name)
        for n in sorted(vars(mod)):
            v = getattr(mod, n)
            if not isinstance(v, dict) or n.startswith('__'):
                continue
            if n != n.upper():
                continue        # lower-case module attributes are fragments the constants are assembled from
            if 'type' not in v and 'properties' not in v and 'anyOf' not in v:
                raise Fail('%s.%s is a dict but does not look like a schema' % (m.name, n))
            cname = 'S_%s__%s' % (m.name, n.strip('_'))
            out.append('Definition %s : schema :=\n  %s.' % (cname, schema(v, '%s.%s' % (m.name, n))))
            names.append(('%s.%s' % (m.name, n), cname))
    out.append('Definition all_schemas : list schema := [%s].' % '; '.join(c for _n, c in names))
    out.append('(* the nesting of every schema is below the fuel of Json.validate *)')
    out.append('Lemma schemas_fuel_ok : forallb (fun s => Nat.ltb (sdepth 40 s) FUEL) all_schemas = true.')
    out.append('Proof. vm_compute. reflexivity. Qed.')
    text = '\n'.join(out) + '\n'
    path = os.path.join(gen_dir, 'GenSchemas.v')
    if not os.path.exists(path) or open(path).read() != text:
        with open(path, 'w') as f:
            f.write(text)
    import json
    work = os.path.join(os.path.dirname(os.path.dirname(os.path.abspath(__file__))), 'work')
    os.makedirs(work, exist_ok=True)
    with open(os.path.join(work, 'schemas.json'), 'w') as f:
        json.dump(names, f)
    print('schemas: %d translated' % len(names))


if __name__ == '__main__':
    try:
        main(sys.argv[1])
    except Fail as exc:
        print('TRANSLATOR FAILED (schemas.py): %s' % exc)
        sys.exit(3)
